//! Deterministic data-parallel helpers (std::thread::scope, results merged in slice order).

/// Number of worker threads (all cores unless `VERIF_THREADS` is set).
pub fn threads() -> usize {
    std::env::var("VERIF_THREADS")
        .ok()
        .and_then(|s| s.parse().ok())
        .unwrap_or_else(|| std::thread::available_parallelism().map(|n| n.get()).unwrap_or(4))
        .max(1)
}

/// Split `0..n` into contiguous blocks (many more blocks than threads for load balance),
/// run `f(range)` on a pool and return the results in block order.
pub fn par_ranges<R: Send>(
    n: usize,
    blocks: usize,
    f: impl Fn(std::ops::Range<usize>) -> R + Sync,
) -> Vec<R> {
    let blocks = blocks.max(1).min(n.max(1));
    let bounds: Vec<(usize, usize)> = (0..blocks)
        .map(|b| (n * b / blocks, n * (b + 1) / blocks))
        .collect();
    let next = std::sync::atomic::AtomicUsize::new(0);
    let results: Vec<std::sync::Mutex<Option<R>>> =
        (0..blocks).map(|_| std::sync::Mutex::new(None)).collect();
    std::thread::scope(|s| {
        for _ in 0..threads().min(blocks) {
            s.spawn(|| loop {
                let i = next.fetch_add(1, std::sync::atomic::Ordering::Relaxed);
                if i >= blocks {
                    break;
                }
                let (a, b) = bounds[i];
                let r = f(a..b);
                // between blocks the worker is not inside the subject
                crate::watch::idle();
                *results[i].lock().unwrap() = Some(r);
            });
        }
    });
    results
        .into_iter()
        .map(|m| m.into_inner().unwrap().expect("worker died"))
        .collect()
}

/// Lets a value be referred to from the worker threads although its type is not `Sync`.
///
/// The subject's types (`Machine`, `Bus`, ...) are plain data today; a change that gives one of them
/// interior mutability (a `Cell` cache, say) must not stop the harness from compiling - it has to be
/// judged by the checks. Every use in this engine hands each element to exactly one worker at a time
/// (`par_map` items, BFS frontier nodes) or only clones the shared value, so no two threads ever
/// touch one instance concurrently.
pub struct Shared<T>(pub T);
unsafe impl<T> Sync for Shared<T> {}
unsafe impl<T> Send for Shared<T> {}
impl<T> Shared<T> {
    pub fn get(&self) -> &T {
        &self.0
    }
}

/// Map over a slice in parallel, preserving order. Each element is visited by exactly one worker.
pub fn par_map<T, R: Send>(items: &[T], f: impl Fn(&T) -> R + Sync) -> Vec<R> {
    let blocks = (threads() * 8).min(items.len().max(1));
    let items = Shared(items);
    par_ranges(items.get().len(), blocks, |r| r.map(|i| f(&items.get()[i])).collect::<Vec<R>>())
        .into_iter()
        .flatten()
        .collect()
}
