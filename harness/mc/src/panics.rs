//! Panic capture: a silent global hook records message + location per thread.
use std::cell::RefCell;
use std::panic::{catch_unwind, AssertUnwindSafe};

#[derive(Debug, Clone, PartialEq, Eq, Hash)]
pub struct PanicInfo {
    pub msg: String,
    /// `file:line` of the panic site.
    pub loc: String,
}

impl PanicInfo {
    /// `file:line` with the path reduced to what follows `/repo/` (or the crate-relative path).
    pub fn site(&self) -> String {
        match self.loc.find("/repo/") {
            Some(i) => self.loc[i + 6..].to_string(),
            None => self.loc.clone(),
        }
    }
    /// File of the panic site without the line (stable across edits).
    pub fn file(&self) -> String {
        let s = self.site();
        match s.rfind(':') {
            Some(i) => s[..i].to_string(),
            None => s,
        }
    }
}

thread_local! {
    static LAST: RefCell<Option<PanicInfo>> = RefCell::new(None);
    /// > 0 while inside `catch` on this thread: panics are expected and recorded silently.
    static ARMED: std::cell::Cell<u32> = std::cell::Cell::new(0);
}

/// Install a global hook that prints nothing and remembers the last panic per thread.
pub fn install_silent_hook() {
    std::panic::set_hook(Box::new(|info| {
        let msg = if let Some(s) = info.payload().downcast_ref::<&str>() {
            s.to_string()
        } else if let Some(s) = info.payload().downcast_ref::<String>() {
            s.clone()
        } else {
            "<non-string panic payload>".to_string()
        };
        let loc = info
            .location()
            .map(|l| format!("{}:{}", l.file(), l.line()))
            .unwrap_or_else(|| "<unknown>".into());
        if ARMED.with(|a| a.get()) == 0 {
            // a panic outside `catch` is a bug of the harness itself: say so loudly
            eprintln!("MACHINERY-ERROR harness panic at {}: {}", loc, msg);
        }
        LAST.with(|l| *l.borrow_mut() = Some(PanicInfo { msg, loc }));
    }));
}

/// Run `f`, turning a panic into `Err(PanicInfo)`.
pub fn catch<T>(f: impl FnOnce() -> T) -> Result<T, PanicInfo> {
    LAST.with(|l| *l.borrow_mut() = None);
    ARMED.with(|a| a.set(a.get() + 1));
    let r = catch_unwind(AssertUnwindSafe(f));
    ARMED.with(|a| a.set(a.get() - 1));
    match r {
        Ok(v) => Ok(v),
        Err(_) => Err(LAST.with(|l| l.borrow_mut().take()).unwrap_or(PanicInfo {
            msg: "<panic without hook info>".into(),
            loc: "<unknown>".into(),
        })),
    }
}
