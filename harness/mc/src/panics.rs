//! Panic capture: a silent global hook records message + location per thread.
use std::cell::RefCell;
use std::panic::{catch_unwind, AssertUnwindSafe};

#[derive(Debug, Clone, PartialEq, Eq, Hash)]
pub struct PanicInfo {
    pub msg: String,
    /// `file:line` of the panic site.
    pub loc: String,
}

impl PanicInfo {
    /// `file:line` with the path reduced to what follows `/repo/` (or the crate-relative path).
    pub fn site(&self) -> String {
        match self.loc.find("/repo/") {
            Some(i) => self.loc[i + 6..].to_string(),
            None => self.loc.clone(),
        }
    }
    /// File of the panic site without the line (stable across edits).
    pub fn file(&self) -> String {
        let s = self.site();
        match s.rfind(':') {
            Some(i) => s[..i].to_string(),
            None => s,
        }
    }
}

/// First panic raised inside the subject's own source files (path contains `/repo/`) while no
/// `catch` was armed on that thread, with the case that thread had published.
static SUBJECT_PANIC: std::sync::Mutex<Option<(PanicInfo, Option<String>)>> = std::sync::Mutex::new(None);

/// A subject panic that escaped every `catch` of the driver: not a bug of the harness but a crash of
/// the code under test in the middle of a check. The driver cannot go on; the caller turns it into a
/// VIOLATION (the property's operations could not even be carried out) instead of a machinery error.
pub fn escaped_subject_panic() -> Option<(PanicInfo, Option<String>)> {
    SUBJECT_PANIC.lock().ok().and_then(|g| g.clone())
}

/// Report an escaped subject panic as a violation of `property` and end the process with exit 1.
pub fn report_escaped_subject_panic(property: &str) -> ! {
    let (p, case) = escaped_subject_panic().expect("no escaped subject panic recorded");
    let key = format!("panic/{}", p.file());
    let dir = crate::verif_root().join("replays").join(property);
    let _ = std::fs::create_dir_all(&dir);
    let fname: String = key.chars().map(|c| if c.is_ascii_alphanumeric() || c == '-' || c == '.' { c } else { '_' }).collect();
    let path = dir.join(format!("{}.replay", fname));
    let line = case.unwrap_or_else(|| "# (the driver had not published a case line at this point)".to_string());
    let _ = std::fs::write(&path, format!("{}\n# property={} key={}\n# the code under test panicked at {}: {}\n# (outside the driver's panic monitor: the check stopped at this case)\n", line, property, key, p.site(), p.msg.replace('\n', " | ")));
    // the run did not complete: replace the evidence of an earlier run by a statement of what happened
    let args: Vec<String> = std::env::args().collect();
    let thorough = args.windows(2).any(|w| w[0] == "--tier" && w[1] == "thorough") || (std::env::var("VERIF_TIER").as_deref() == Ok("thorough") && !args.iter().any(|a| a == "--tier"));
    if !args.iter().any(|a| a == "--replay") {
        let mut cov = crate::json::Json::obj();
        cov.set("explanation", format!("the run was aborted by a panic of the code under test at {} ({}) outside the driver's panic monitor; nothing is claimed for this run", p.site(), p.msg.lines().next().unwrap_or("")));
        let mut ev = crate::json::Json::obj();
        ev.set("property_id", property);
        ev.set("tier", if thorough { "thorough" } else { "quick" });
        ev.set("seed", std::env::var("VERIF_SEED").ok().and_then(|s| s.parse::<i64>().ok()).unwrap_or(0));
        ev.set("level", "other");
        ev.set("coverage", cov);
        ev.set("wall_s", 0.0);
        ev.set("violations", 1i64);
        let d = crate::verif_root().join("evidence");
        let _ = std::fs::create_dir_all(&d);
        let _ = std::fs::write(d.join(format!("{}.json", property)), ev.render());
    }
    println!("VIOLATION property={} replay={}", property, path.display());
    println!("  key={} the code under test panicked at {}: {} (the check stopped at this case)", key, p.site(), p.msg.lines().next().unwrap_or(""));
    std::process::exit(1)
}

thread_local! {
    static LAST: RefCell<Option<PanicInfo>> = RefCell::new(None);
    /// > 0 while inside `catch` on this thread: panics are expected and recorded silently.
    static ARMED: std::cell::Cell<u32> = std::cell::Cell::new(0);
}

/// Install a global hook that prints nothing and remembers the last panic per thread.
pub fn install_silent_hook() {
    std::panic::set_hook(Box::new(|info| {
        let msg = if let Some(s) = info.payload().downcast_ref::<&str>() {
            s.to_string()
        } else if let Some(s) = info.payload().downcast_ref::<String>() {
            s.clone()
        } else {
            "<non-string panic payload>".to_string()
        };
        let loc = info
            .location()
            .map(|l| format!("{}:{}", l.file(), l.line()))
            .unwrap_or_else(|| "<unknown>".into());
        if ARMED.with(|a| a.get()) == 0 {
            if loc.contains("/repo/") {
                // the subject crashed where the driver did not monitor for it: remember the first one
                if let Ok(mut g) = SUBJECT_PANIC.lock() {
                    if g.is_none() {
                        *g = Some((PanicInfo { msg: msg.clone(), loc: loc.clone() }, crate::watch::current_case()));
                    }
                }
                eprintln!("subject panic outside the panic monitor at {}: {}", loc, msg);
            } else {
                // a panic outside `catch` in harness code is a bug of the harness itself: say so loudly
                eprintln!("MACHINERY-ERROR harness panic at {}: {}", loc, msg);
            }
        }
        LAST.with(|l| *l.borrow_mut() = Some(PanicInfo { msg, loc }));
    }));
}

/// Run `f`, turning a panic into `Err(PanicInfo)`.
pub fn catch<T>(f: impl FnOnce() -> T) -> Result<T, PanicInfo> {
    LAST.with(|l| *l.borrow_mut() = None);
    ARMED.with(|a| a.set(a.get() + 1));
    let r = catch_unwind(AssertUnwindSafe(f));
    ARMED.with(|a| a.set(a.get() - 1));
    match r {
        Ok(v) => Ok(v),
        Err(_) => Err(LAST.with(|l| l.borrow_mut().take()).unwrap_or(PanicInfo {
            msg: "<panic without hook info>".into(),
            loc: "<unknown>".into(),
        })),
    }
}
