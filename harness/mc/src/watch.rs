//! Stall watchdog: a call into the subject that never returns must not hang the check.
//! Worker threads publish what they are working on (`progress`); a watchdog thread reports a
//! VIOLATION with that description as the replay line when one of them makes no progress for the
//! stall limit, and ends the process (exit 1). A global wall limit is a machinery error (exit 2).
use std::sync::atomic::{AtomicBool, AtomicU64, Ordering};
use std::sync::{Arc, Mutex, OnceLock};
use std::time::Instant;

struct Slot {
    active: AtomicBool,
    since_ms: AtomicU64,
    desc: Mutex<String>,
}

static REGISTRY: OnceLock<Mutex<Vec<Arc<Slot>>>> = OnceLock::new();
static T0: OnceLock<Instant> = OnceLock::new();

fn now_ms() -> u64 {
    T0.get_or_init(Instant::now).elapsed().as_millis() as u64
}

/// Thread-local handle; when the thread ends its slot goes idle.
struct Handle(Arc<Slot>);
impl Drop for Handle {
    fn drop(&mut self) {
        self.0.active.store(false, Ordering::Release);
    }
}

thread_local! {
    static MY: Handle = {
        let s = Arc::new(Slot { active: AtomicBool::new(false), since_ms: AtomicU64::new(0), desc: Mutex::new(String::new()) });
        REGISTRY.get_or_init(|| Mutex::new(vec![])).lock().unwrap().push(s.clone());
        Handle(s)
    };
}

/// This thread starts working on the case described by `desc` (a replayable line).
pub fn progress(desc: impl FnOnce() -> String) {
    MY.with(|h| {
        let s = &h.0;
        *s.desc.lock().unwrap() = desc();
        s.since_ms.store(now_ms(), Ordering::Relaxed);
        s.active.store(true, Ordering::Release);
    });
}

/// The case this thread published last (for reports about a panic of the subject outside `catch`).
pub fn current_case() -> Option<String> {
    MY.with(|h| {
        if h.0.active.load(Ordering::Acquire) {
            h.0.desc.lock().ok().map(|d| d.clone()).filter(|d| !d.is_empty())
        } else {
            None
        }
    })
}

/// This thread is between cases (not inside the subject).
pub fn idle() {
    MY.with(|h| h.0.active.store(false, Ordering::Release));
}

/// Start the watchdog for this process.
pub fn start(property: &str, key: &str, stall_secs: u64, wall_secs: u64) {
    let property = property.to_string();
    let key = key.to_string();
    let _ = now_ms();
    std::thread::spawn(move || loop {
        std::thread::sleep(std::time::Duration::from_millis(300));
        let now = now_ms();
        if now > wall_secs * 1000 {
            println!("MACHINERY-ERROR property={} the check exceeded its wall limit of {} s", property, wall_secs);
            std::process::exit(2);
        }
        let slots: Vec<Arc<Slot>> = REGISTRY.get_or_init(|| Mutex::new(vec![])).lock().unwrap().clone();
        for s in slots {
            if s.active.load(Ordering::Acquire) && now.saturating_sub(s.since_ms.load(Ordering::Relaxed)) > stall_secs * 1000 {
                let desc = s.desc.lock().map(|d| d.clone()).unwrap_or_default();
                let dir = crate::verif_root().join("replays").join(&property);
                let _ = std::fs::create_dir_all(&dir);
                let fname: String = key.chars().map(|c| if c.is_ascii_alphanumeric() || c == '-' || c == '.' { c } else { '_' }).collect();
                let path = dir.join(format!("{}.replay", fname));
                let _ = std::fs::write(&path, format!("{}\n# property={} key={}\n# a call into the subject did not return within {} s while working on the case above\n", desc, property, key, stall_secs));
                println!("VIOLATION property={} replay={}", property, path.display());
                println!("  key={} a call into the subject did not return within {} s; case: {}", key, stall_secs, desc.chars().take(300).collect::<String>());
                std::process::exit(1);
            }
        }
    });
}
