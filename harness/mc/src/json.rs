//! Minimal JSON value + serializer (no parser needed: known findings use a line format).
use std::fmt::Write;

#[derive(Debug, Clone, PartialEq)]
pub enum Json {
    Null,
    Bool(bool),
    Int(i64),
    Num(f64),
    Str(String),
    Arr(Vec<Json>),
    Obj(Vec<(String, Json)>),
}

impl Json {
    pub fn obj() -> Json {
        Json::Obj(vec![])
    }
    pub fn set(&mut self, k: &str, v: impl Into<Json>) -> &mut Self {
        if let Json::Obj(fields) = self {
            let v = v.into();
            if let Some(f) = fields.iter_mut().find(|(fk, _)| fk == k) {
                f.1 = v;
            } else {
                fields.push((k.to_string(), v));
            }
        }
        self
    }
    pub fn get(&self, k: &str) -> Option<&Json> {
        match self {
            Json::Obj(f) => f.iter().find(|(fk, _)| fk == k).map(|(_, v)| v),
            _ => None,
        }
    }
    pub fn render(&self) -> String {
        let mut s = String::new();
        self.write(&mut s, 0);
        s.push('\n');
        s
    }
    fn write(&self, out: &mut String, ind: usize) {
        match self {
            Json::Null => out.push_str("null"),
            Json::Bool(b) => out.push_str(if *b { "true" } else { "false" }),
            Json::Int(i) => {
                let _ = write!(out, "{}", i);
            }
            Json::Num(n) => {
                if n.is_finite() {
                    let _ = write!(out, "{}", n);
                    if n.fract() == 0.0 && !out.ends_with(|c: char| c == 'e') {
                        // keep it a JSON number (integers are fine too)
                    }
                } else {
                    out.push_str("null");
                }
            }
            Json::Str(s) => esc(s, out),
            Json::Arr(a) => {
                if a.is_empty() {
                    out.push_str("[]");
                    return;
                }
                out.push('[');
                for (i, v) in a.iter().enumerate() {
                    if i > 0 {
                        out.push(',');
                    }
                    out.push('\n');
                    pad(out, ind + 1);
                    v.write(out, ind + 1);
                }
                out.push('\n');
                pad(out, ind);
                out.push(']');
            }
            Json::Obj(o) => {
                if o.is_empty() {
                    out.push_str("{}");
                    return;
                }
                out.push('{');
                for (i, (k, v)) in o.iter().enumerate() {
                    if i > 0 {
                        out.push(',');
                    }
                    out.push('\n');
                    pad(out, ind + 1);
                    esc(k, out);
                    out.push_str(": ");
                    v.write(out, ind + 1);
                }
                out.push('\n');
                pad(out, ind);
                out.push('}');
            }
        }
    }
}

fn pad(out: &mut String, n: usize) {
    for _ in 0..n {
        out.push(' ');
    }
}

fn esc(s: &str, out: &mut String) {
    out.push('"');
    for c in s.chars() {
        match c {
            '"' => out.push_str("\\\""),
            '\\' => out.push_str("\\\\"),
            '\n' => out.push_str("\\n"),
            '\r' => out.push_str("\\r"),
            '\t' => out.push_str("\\t"),
            c if (c as u32) < 0x20 => {
                let _ = write!(out, "\\u{:04x}", c as u32);
            }
            c => out.push(c),
        }
    }
    out.push('"');
}

impl From<bool> for Json {
    fn from(v: bool) -> Self {
        Json::Bool(v)
    }
}
impl From<i64> for Json {
    fn from(v: i64) -> Self {
        Json::Int(v)
    }
}
impl From<u64> for Json {
    fn from(v: u64) -> Self {
        Json::Int(v as i64)
    }
}
impl From<usize> for Json {
    fn from(v: usize) -> Self {
        Json::Int(v as i64)
    }
}
impl From<u32> for Json {
    fn from(v: u32) -> Self {
        Json::Int(v as i64)
    }
}
impl From<i32> for Json {
    fn from(v: i32) -> Self {
        Json::Int(v as i64)
    }
}
impl From<f64> for Json {
    fn from(v: f64) -> Self {
        Json::Num(v)
    }
}
impl From<&str> for Json {
    fn from(v: &str) -> Self {
        Json::Str(v.to_string())
    }
}
impl From<String> for Json {
    fn from(v: String) -> Self {
        Json::Str(v)
    }
}
impl<T: Into<Json>> From<Vec<T>> for Json {
    fn from(v: Vec<T>) -> Self {
        Json::Arr(v.into_iter().map(Into::into).collect())
    }
}
