//! Engine shared by every check: JSON/evidence writer, known-findings matcher,
//! violation reporter, worker pool, explicit-state BFS, panic capture.
//! std only.

pub mod bfs;
pub mod json;
pub mod panics;
pub mod par;
pub mod report;
pub mod watch;

pub use bfs::{bfs, BfsStats};
pub use json::Json;
pub use panics::{catch, install_silent_hook, PanicInfo};
pub use par::{par_map, par_ranges, threads};
pub use report::{Ctx, Tier, Violation};

/// Root of the verification tree (`/verif` unless `VERIF_ROOT` is set by `./check`).
pub fn verif_root() -> std::path::PathBuf {
    std::env::var_os("VERIF_ROOT")
        .map(Into::into)
        .unwrap_or_else(|| "/verif".into())
}

/// Parse `k=v` pairs of a replay line.
pub fn kv(line: &str) -> std::collections::HashMap<String, String> {
    line.split_whitespace()
        .filter_map(|t| t.split_once('='))
        .map(|(k, v)| (k.to_string(), v.to_string()))
        .collect()
}

/// Parse a number in decimal or 0x-hex.
pub fn num(s: &str) -> u64 {
    if let Some(h) = s.strip_prefix("0x") {
        u64::from_str_radix(h, 16).expect("bad hex number in replay")
    } else {
        s.parse().expect("bad number in replay")
    }
}

/// Hex dump of a byte slice, `aa bb cc`.
pub fn hex(bytes: &[u8]) -> String {
    bytes
        .iter()
        .map(|b| format!("{:02x}", b))
        .collect::<Vec<_>>()
        .join(" ")
}

/// Inverse of [`hex`].
pub fn unhex(s: &str) -> Vec<u8> {
    s.split(|c: char| c == ' ' || c == ',' || c == '_')
        .filter(|t| !t.is_empty())
        .map(|t| u8::from_str_radix(t, 16).expect("bad hex byte"))
        .collect()
}

/// FNV-1a, used for deterministic (seed independent) digests.
pub fn fnv(bytes: &[u8]) -> u64 {
    let mut h = 0xcbf29ce484222325u64;
    for b in bytes {
        h ^= *b as u64;
        h = h.wrapping_mul(0x100000001b3);
    }
    h
}
