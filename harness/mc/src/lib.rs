//! Engine shared by every check: JSON/evidence writer, known-findings matcher,
//! violation reporter, worker pool, explicit-state BFS, panic capture.
//! std only.

pub mod bfs;
pub mod json;
pub mod panics;
pub mod par;
pub mod report;
pub mod watch;

pub use bfs::{bfs, BfsStats};
pub use json::Json;
pub use panics::{catch, install_silent_hook, PanicInfo};
pub use par::{par_map, par_ranges, threads};
pub use report::{Ctx, Tier, Violation};

/// Root of the verification tree (`/verif` unless `VERIF_ROOT` is set by `./check`).
pub fn verif_root() -> std::path::PathBuf {
    std::env::var_os("VERIF_ROOT")
        .map(Into::into)
        .unwrap_or_else(|| "/verif".into())
}

/// Parse `k=v` pairs of a replay line.
pub fn kv(line: &str) -> std::collections::HashMap<String, String> {
    line.split_whitespace()
        .filter_map(|t| t.split_once('='))
        .map(|(k, v)| (k.to_string(), v.to_string()))
        .collect()
}

/// Parse a number in decimal or 0x-hex.
pub fn num(s: &str) -> u64 {
    if let Some(h) = s.strip_prefix("0x") {
        u64::from_str_radix(h, 16).expect("bad hex number in replay")
    } else {
        s.parse().expect("bad number in replay")
    }
}

/// Hex dump of a byte slice, `aa bb cc`.
pub fn hex(bytes: &[u8]) -> String {
    bytes
        .iter()
        .map(|b| format!("{:02x}", b))
        .collect::<Vec<_>>()
        .join(" ")
}

/// Inverse of [`hex`].
pub fn unhex(s: &str) -> Vec<u8> {
    s.split(|c: char| c == ' ' || c == ',' || c == '_')
        .filter(|t| !t.is_empty())
        .map(|t| u8::from_str_radix(t, 16).expect("bad hex byte"))
        .collect()
}

/// FNV-1a, used for deterministic (seed independent) digests.
pub fn fnv(bytes: &[u8]) -> u64 {
    let mut h = 0xcbf29ce484222325u64;
    for b in bytes {
        h ^= *b as u64;
        h = h.wrapping_mul(0x100000001b3);
    }
    h
}

/// Run a command with a wall-clock limit. `None` = it had to be killed.
pub fn output_with_timeout(cmd: &mut std::process::Command, secs: u64) -> std::io::Result<Option<std::process::Output>> {
    use std::io::Read;
    let mut child = cmd.stdout(std::process::Stdio::piped()).stderr(std::process::Stdio::piped()).spawn()?;
    let mut so = child.stdout.take().unwrap();
    let mut se = child.stderr.take().unwrap();
    let t1 = std::thread::spawn(move || {
        let mut v = vec![];
        let _ = so.read_to_end(&mut v);
        v
    });
    let t2 = std::thread::spawn(move || {
        let mut v = vec![];
        let _ = se.read_to_end(&mut v);
        v
    });
    let t0 = std::time::Instant::now();
    let status = loop {
        match child.try_wait()? {
            Some(s) => break Some(s),
            None => {
                if t0.elapsed().as_secs() >= secs {
                    let _ = child.kill();
                    let _ = child.wait();
                    break None;
                }
                std::thread::sleep(std::time::Duration::from_millis(5));
            }
        }
    };
    let stdout = t1.join().unwrap_or_default();
    let stderr = t2.join().unwrap_or_default();
    Ok(status.map(|status| std::process::Output { status, stdout, stderr }))
}
