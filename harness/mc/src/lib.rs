//! Engine shared by every check: JSON/evidence writer, known-findings matcher,
//! violation reporter, worker pool, explicit-state BFS, panic capture.
//! std only.

pub mod bfs;
pub mod json;
pub mod panics;
pub mod par;
pub mod report;
pub mod watch;

pub use bfs::{bfs, BfsStats};
pub use json::Json;
pub use panics::{catch, install_silent_hook, PanicInfo};
pub use par::{par_map, par_ranges, threads, Shared};
pub use report::{Ctx, Tier, Violation};

/// Root of the verification tree (`/verif` unless `VERIF_ROOT` is set by `./check`).
pub fn verif_root() -> std::path::PathBuf {
    std::env::var_os("VERIF_ROOT")
        .map(Into::into)
        .unwrap_or_else(|| "/verif".into())
}

/// Parse `k=v` pairs of a replay line.
pub fn kv(line: &str) -> std::collections::HashMap<String, String> {
    line.split_whitespace()
        .filter_map(|t| t.split_once('='))
        .map(|(k, v)| (k.to_string(), v.to_string()))
        .collect()
}

/// Parse a number in decimal or 0x-hex.
pub fn num(s: &str) -> u64 {
    if let Some(h) = s.strip_prefix("0x") {
        u64::from_str_radix(h, 16).expect("bad hex number in replay")
    } else {
        s.parse().expect("bad number in replay")
    }
}

/// Hex dump of a byte slice, `aa bb cc`.
pub fn hex(bytes: &[u8]) -> String {
    bytes
        .iter()
        .map(|b| format!("{:02x}", b))
        .collect::<Vec<_>>()
        .join(" ")
}

/// Inverse of [`hex`].
pub fn unhex(s: &str) -> Vec<u8> {
    s.split(|c: char| c == ' ' || c == ',' || c == '_')
        .filter(|t| !t.is_empty())
        .map(|t| u8::from_str_radix(t, 16).expect("bad hex byte"))
        .collect()
}

/// FNV-1a, used for deterministic (seed independent) digests.
pub fn fnv(bytes: &[u8]) -> u64 {
    let mut h = 0xcbf29ce484222325u64;
    for b in bytes {
        h ^= *b as u64;
        h = h.wrapping_mul(0x100000001b3);
    }
    h
}

/// Children in flight: pid -> (deadline, killed by the watchdog).
static CHILDREN: std::sync::Mutex<Option<std::collections::HashMap<u32, (std::time::Instant, bool)>>> = std::sync::Mutex::new(None);
static CHILD_WATCHDOG: std::sync::Once = std::sync::Once::new();

/// Run a command with a wall-clock limit. `None` = it had to be killed.
/// The worker blocks in `wait_with_output`; one watchdog thread kills overdue children.
pub fn output_with_timeout(cmd: &mut std::process::Command, secs: u64) -> std::io::Result<Option<std::process::Output>> {
    output_with_timeout_stdin(cmd, secs, None)
}

/// The same with bytes fed to the child's standard input (a pipe, closed after the last byte).
pub fn output_with_timeout_stdin(cmd: &mut std::process::Command, secs: u64, stdin: Option<&[u8]>) -> std::io::Result<Option<std::process::Output>> {
    CHILD_WATCHDOG.call_once(|| {
        std::thread::spawn(|| loop {
            std::thread::sleep(std::time::Duration::from_millis(200));
            let now = std::time::Instant::now();
            let mut overdue = vec![];
            if let Some(map) = CHILDREN.lock().unwrap().as_mut() {
                for (pid, (deadline, killed)) in map.iter_mut() {
                    if now >= *deadline && !*killed {
                        *killed = true;
                        overdue.push(*pid);
                    }
                }
            }
            for pid in overdue {
                let _ = std::process::Command::new("kill").arg("-9").arg(pid.to_string()).status();
            }
        });
    });
    let mut child = cmd.stdin(if stdin.is_some() { std::process::Stdio::piped() } else { std::process::Stdio::null() }).stdout(std::process::Stdio::piped()).stderr(std::process::Stdio::piped()).spawn()?;
    if let (Some(data), Some(mut pipe)) = (stdin, child.stdin.take()) {
        use std::io::Write;
        let _ = pipe.write_all(data);
        // dropping the handle closes the pipe: the child sees end of input
    }
    let pid = child.id();
    CHILDREN.lock().unwrap().get_or_insert_with(Default::default).insert(pid, (std::time::Instant::now() + std::time::Duration::from_secs(secs), false));
    let out = child.wait_with_output();
    let killed = CHILDREN.lock().unwrap().as_mut().and_then(|m| m.remove(&pid)).map(|x| x.1).unwrap_or(false);
    let out = out?;
    Ok(if killed { None } else { Some(out) })
}

#[cfg(test)]
mod tests {
    #[test]
    fn child_timeout_and_normal_exit() {
        let t0 = std::time::Instant::now();
        let r = super::output_with_timeout(std::process::Command::new("sleep").arg("30"), 1).unwrap();
        assert!(r.is_none());
        assert!(t0.elapsed().as_secs() < 5);
        let r = super::output_with_timeout(std::process::Command::new("sh").arg("-c").arg("echo hi; exit 3"), 5).unwrap().unwrap();
        assert_eq!(r.status.code(), Some(3));
        assert_eq!(r.stdout, b"hi\n");
    }
}
