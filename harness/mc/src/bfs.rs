//! Explicit-state breadth-first search over a transition function that runs the real code.
use std::collections::HashSet;
use std::hash::Hash;

#[derive(Debug, Default, Clone)]
pub struct BfsStats {
    pub states: usize,
    pub transitions: usize,
    pub depth_completed: usize,
    pub frontier_sizes: Vec<usize>,
    pub cap_hit: bool,
}

/// Level-synchronous BFS. `succ(state, depth)` returns the successors (after having checked its
/// own oracles on each transition); `key(state)` is the canonical key for deduplication.
/// Levels are expanded in parallel, results merged in order, so the search is deterministic.
pub fn bfs<S: Send, K: Hash + Eq + Send>(
    init: Vec<S>,
    max_depth: usize,
    max_states: usize,
    key: impl Fn(&S) -> K + Sync,
    succ: impl Fn(&S, usize) -> Vec<S> + Sync,
    mut visit: impl FnMut(&S, usize),
) -> BfsStats {
    let mut stats = BfsStats::default();
    let mut seen: HashSet<K> = HashSet::new();
    let mut frontier: Vec<S> = vec![];
    for s in init {
        if seen.insert(key(&s)) {
            visit(&s, 0);
            frontier.push(s);
        }
    }
    stats.states = frontier.len();
    stats.frontier_sizes.push(frontier.len());
    for depth in 0..max_depth {
        if frontier.is_empty() {
            break;
        }
        let expanded: Vec<Vec<(K, S)>> = crate::par::par_map(&frontier, |s| {
            succ(s, depth).into_iter().map(|n| (key(&n), n)).collect()
        });
        let mut next = vec![];
        for succs in expanded {
            for (k, n) in succs {
                stats.transitions += 1;
                if seen.insert(k) {
                    visit(&n, depth + 1);
                    next.push(n);
                }
            }
        }
        stats.states += next.len();
        stats.frontier_sizes.push(next.len());
        stats.depth_completed = depth + 1;
        frontier = next;
        if stats.states > max_states {
            stats.cap_hit = true;
            break;
        }
    }
    stats
}
