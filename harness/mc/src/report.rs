//! Per-check context: tier/seed, violation collection and classification against the
//! known-findings file, replay files, evidence file, exit status.
use crate::json::Json;
use std::collections::BTreeMap;
use std::time::Instant;

#[derive(Debug, Clone, Copy, PartialEq, Eq)]
pub enum Tier {
    Quick,
    Thorough,
}

#[derive(Debug, Clone)]
pub struct Violation {
    /// Class key: the narrowest stable identification of the failing region. Matched (exactly)
    /// against `open:` entries of the known-findings file.
    pub key: String,
    /// Human readable: expected vs. observed.
    pub what: String,
    /// Replayable case line(s); first line must be accepted by `./check <ID> --replay`.
    pub replay: String,
}

pub struct Ctx {
    pub id: String,
    pub tier: Tier,
    pub seed: u64,
    pub level: String,
    pub cov: Json,
    pub assumptions: Vec<String>,
    pub replay_file: Option<String>,
    start: Instant,
    violations: Vec<Violation>,
    machinery_errors: Vec<String>,
}

#[derive(Debug, Clone)]
struct Finding {
    fixed: bool,
    property: String,
    key: String,
    what: String,
}

fn load_findings() -> Vec<Finding> {
    let path = crate::verif_root().join("known_findings.txt");
    let text = std::fs::read_to_string(&path).unwrap_or_default();
    let mut out = vec![];
    for line in text.lines() {
        let line = line.trim();
        if line.is_empty() || line.starts_with('#') {
            continue;
        }
        let (fixed, rest) = if let Some(r) = line.strip_prefix("fixed:") {
            (true, r)
        } else if let Some(r) = line.strip_prefix("open:") {
            (false, r)
        } else {
            continue;
        };
        let mut property = String::new();
        let mut key = String::new();
        let mut what = vec![];
        for tok in rest.split_whitespace() {
            if let Some(p) = tok.strip_prefix("property=") {
                property = p.to_string();
            } else if let Some(k) = tok.strip_prefix("key=") {
                key = k.to_string();
            } else {
                what.push(tok);
            }
        }
        out.push(Finding {
            fixed,
            property,
            key,
            what: what.join(" "),
        });
    }
    out
}

impl Ctx {
    /// Build the context from the process arguments: `<ID> [--tier quick|thorough] [--replay FILE]`
    /// (env `VERIF_TIER`, `VERIF_SEED` are honoured; the flag wins over the env).
    pub fn from_args(level: &str) -> Ctx {
        let args: Vec<String> = std::env::args().collect();
        let id = args.get(1).cloned().unwrap_or_default();
        let mut tier = match std::env::var("VERIF_TIER").as_deref() {
            Ok("thorough") => Tier::Thorough,
            _ => Tier::Quick,
        };
        let mut replay_file = None;
        let mut i = 2;
        while i < args.len() {
            match args[i].as_str() {
                "--tier" => {
                    i += 1;
                    tier = match args.get(i).map(|s| s.as_str()) {
                        Some("thorough") => Tier::Thorough,
                        _ => Tier::Quick,
                    };
                }
                "--replay" => {
                    i += 1;
                    replay_file = args.get(i).cloned();
                }
                _ => {}
            }
            i += 1;
        }
        let seed = std::env::var("VERIF_SEED")
            .ok()
            .and_then(|s| s.parse::<i64>().ok())
            .map(|v| v as u64)
            .unwrap_or(0);
        // a call into the subject that never returns: VIOLATION after the stall limit (drivers publish
        // the case in flight with mc::watch::progress); overall wall limit: machinery error
        if replay_file.is_none() {
            let (stall, wall) = if tier == Tier::Quick { (40, 1500) } else { (90, 4 * 3600) };
            crate::watch::start(&id, "call-never-returns", stall, wall);
        } else {
            crate::watch::start(&id, "call-never-returns", 30, 900);
        }
        Ctx {
            id,
            tier,
            seed,
            level: level.to_string(),
            cov: Json::obj(),
            assumptions: vec![],
            replay_file,
            start: Instant::now(),
            violations: vec![],
            machinery_errors: vec![],
        }
    }
    pub fn quick(&self) -> bool {
        self.tier == Tier::Quick
    }
    pub fn elapsed(&self) -> f64 {
        self.start.elapsed().as_secs_f64()
    }
    pub fn violation(&mut self, key: impl Into<String>, what: impl Into<String>, replay: impl Into<String>) {
        self.violations.push(Violation {
            key: key.into(),
            what: what.into(),
            replay: replay.into(),
        });
    }
    pub fn extend(&mut self, vs: impl IntoIterator<Item = Violation>) {
        self.violations.extend(vs);
    }
    pub fn machinery_error(&mut self, msg: impl Into<String>) {
        self.machinery_errors.push(msg.into());
    }
    pub fn assume(&mut self, s: &str) {
        self.assumptions.push(s.to_string());
    }
    pub fn set(&mut self, k: &str, v: impl Into<Json>) {
        crate::watch::idle();
        self.cov.set(k, v);
    }
    /// Add to an integer counter in the coverage object.
    pub fn add(&mut self, k: &str, n: u64) {
        let cur = match self.cov.get(k) {
            Some(Json::Int(i)) => *i as u64,
            _ => 0,
        };
        self.cov.set(k, cur + n);
    }
    /// Append a sample (kept to a bounded number per run).
    pub fn sample(&mut self, v: impl Into<Json>) {
        let mut arr = match self.cov.get("samples") {
            Some(Json::Arr(a)) => a.clone(),
            _ => vec![],
        };
        if arr.len() < 24 {
            arr.push(v.into());
        }
        self.cov.set("samples", Json::Arr(arr));
    }
    pub fn n_violations(&self) -> usize {
        self.violations.len()
    }

    /// Classify, write replays + evidence, print the verdict lines and exit.
    pub fn finish(mut self) -> ! {
        crate::watch::idle();
        let root = crate::verif_root();
        let findings = load_findings();
        // group by key, keeping order of first appearance
        let mut order: Vec<String> = vec![];
        let mut groups: BTreeMap<String, Vec<Violation>> = BTreeMap::new();
        for v in self.violations.drain(..) {
            if !groups.contains_key(&v.key) {
                order.push(v.key.clone());
            }
            groups.entry(v.key.clone()).or_default().push(v);
        }
        let mut new_keys = vec![];
        let mut known = vec![];
        for k in &order {
            let open = findings
                .iter()
                .find(|f| !f.fixed && f.property == self.id && f.key == *k);
            match open {
                Some(f) => known.push((k.clone(), f.what.clone(), groups[k].len())),
                None => new_keys.push(k.clone()),
            }
        }
        // open findings that no longer fire: informational only
        let mut stale = vec![];
        for f in findings.iter().filter(|f| !f.fixed && f.property == self.id) {
            if !groups.contains_key(&f.key) {
                stale.push(f.key.clone());
            }
        }
        let replay_dir = root.join("replays").join(&self.id);
        let mut exit = 0;
        for (k, what, n) in &known {
            println!(
                "KNOWN-FINDING: property={} key={} {} ({} case(s) in this run; first: {})",
                self.id, k, what, n, groups[k][0].what
            );
        }
        for k in &new_keys {
            let vs = &groups[k];
            let _ = std::fs::create_dir_all(&replay_dir);
            let fname: String = k
                .chars()
                .map(|c| if c.is_ascii_alphanumeric() || c == '-' || c == '.' { c } else { '_' })
                .collect();
            let path = replay_dir.join(format!("{}.replay", fname));
            let mut body = String::new();
            body.push_str(&vs[0].replay);
            if !body.ends_with('\n') {
                body.push('\n');
            }
            body.push_str(&format!("# property={} key={}\n# {}\n", self.id, k, vs[0].what.replace('\n', "\n# ")));
            body.push_str(&format!("# {} violation(s) of this class in the run; further cases:\n", vs.len()));
            for v in vs.iter().skip(1).take(20) {
                body.push_str(&format!("# {} :: {}\n", v.replay.lines().next().unwrap_or(""), v.what.replace('\n', " | ")));
            }
            let _ = std::fs::write(&path, body);
            println!("VIOLATION property={} replay={}", self.id, path.display());
            println!("  key={} cases={} first: {}", k, vs.len(), vs[0].what);
            let fixed_before = findings
                .iter()
                .any(|f| f.fixed && f.property == self.id && f.key == *k);
            if fixed_before {
                println!("  note: this class is recorded as fixed in known_findings.txt and has returned");
            }
            exit = 1;
        }
        for m in &self.machinery_errors {
            println!("MACHINERY-ERROR property={} {}", self.id, m);
        }
        if !self.machinery_errors.is_empty() && exit == 0 {
            exit = 2;
        }
        // evidence
        let total: usize = groups.values().map(|v| v.len()).sum();
        let mut ev = Json::obj();
        ev.set("property_id", self.id.as_str());
        ev.set("tier", if self.tier == Tier::Quick { "quick" } else { "thorough" });
        ev.set("seed", self.seed as i64);
        ev.set("level", self.level.as_str());
        let mut cov = self.cov.clone();
        cov.set(
            "known_findings_seen",
            Json::Arr(
                known
                    .iter()
                    .map(|(k, _, n)| {
                        let mut o = Json::obj();
                        o.set("key", k.as_str()).set("cases", *n);
                        o
                    })
                    .collect(),
            ),
        );
        cov.set("new_violation_classes", Json::Arr(new_keys.iter().map(|k| Json::Str(k.clone())).collect()));
        cov.set("open_findings_not_reproduced", Json::Arr(stale.iter().map(|k| Json::Str(k.clone())).collect()));
        cov.set("machinery_errors", Json::Arr(self.machinery_errors.iter().map(|k| Json::Str(k.clone())).collect()));
        ev.set("coverage", cov);
        ev.set("assumptions", Json::Arr(self.assumptions.iter().map(|s| Json::Str(s.clone())).collect()));
        ev.set("wall_s", (self.start.elapsed().as_secs_f64() * 1000.0).round() / 1000.0);
        ev.set("violations", total);
        if self.replay_file.is_none() {
            let dir = root.join("evidence");
            let _ = std::fs::create_dir_all(&dir);
            if let Err(e) = std::fs::write(dir.join(format!("{}.json", self.id)), ev.render()) {
                println!("MACHINERY-ERROR property={} cannot write evidence: {}", self.id, e);
                if exit == 0 {
                    exit = 2;
                }
            }
        }
        if exit == 0 {
            println!(
                "OK property={} tier={:?} wall={:.1}s violations_new=0 known={}",
                self.id,
                self.tier,
                self.start.elapsed().as_secs_f64(),
                known.len()
            );
        }
        std::process::exit(exit)
    }
}
