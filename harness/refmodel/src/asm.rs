//! REF-ASM: a two-pass assembler for the reference AST (`mrasm::RAsm`).
//!
//! Pass 1 sizes every line from the written-out encoding table and assigns each label the
//! address of the next byte (names folded to lower case; a later definition replaces an earlier
//! one, `.EQU` names share the table). Pass 2 emits. Layout problems the subject cannot express
//! (backward `.ORG`, image beyond the address space) are reported as `Layout` so callers can
//! leave those programs to C06.

use crate::mrasm::{RAsm, RConst, RInst, RLine, ROp};
use std::collections::HashMap;

#[derive(Debug, Clone, PartialEq, Eq)]
pub struct RByteCode {
    /// bytes per source line (same indexing as `RAsm::lines`)
    pub lines: Vec<Vec<u8>>,
    /// 0,16,32,48,64 or -1 (NOSET)
    pub stack: i32,
    /// n, -1 = AUTO, -2 = NOSET
    pub prog: i32,
}

impl RByteCode {
    pub fn bytes(&self) -> Vec<u8> {
        self.lines.iter().flatten().cloned().collect()
    }
}

#[derive(Debug, Clone, PartialEq, Eq)]
pub enum Layout {
    BackwardOrg { line: usize, at: usize, to: u8 },
    /// the image would not fit the 8-bit address counter
    TooLarge { size: usize },
    UndefinedLabel(String),
}

#[derive(Debug, Clone)]
enum Item {
    B(u8),
    /// absolute label / .EQU value
    L(String),
    /// relative jump offset: target - (address after the 2-byte jump)
    Rel(String, usize),
}

fn c_item(c: &RConst) -> Item {
    match c {
        RConst::Num(n) => Item::B(*n),
        RConst::Label(l) => Item::L(l.clone()),
    }
}

/// (mode, reg, extra byte) of a source / destination operand.
fn mode_of(op: &ROp) -> (u8, u8, Option<Item>) {
    match op {
        ROp::Reg(r) => (0, *r, None),
        ROp::MemReg(r) => (1, *r, None),
        ROp::Di(r) => (2, *r, None),
        ROp::Ddi(r) => (3, *r, None),
        ROp::Const(c) => (2, 3, Some(c_item(c))),
        ROp::MemConst(c) => (3, 3, Some(c_item(c))),
        other => panic!("REF-ASM: operand {:?} has no addressing mode", other),
    }
}

fn reg(op: &ROp) -> u8 {
    match op {
        ROp::Reg(r) => *r,
        other => panic!("REF-ASM: register expected, got {:?}", other),
    }
}

fn label(op: &ROp) -> String {
    match op {
        ROp::Label(l) => l.clone(),
        other => panic!("REF-ASM: label expected, got {:?}", other),
    }
}

/// two-byte form: source first, then second opcode with the destination
fn two_byte(second_base: u8, dst: Option<&ROp>, src: &ROp) -> Vec<Item> {
    let (sm, sr, sx) = mode_of(src);
    let mut v = vec![Item::B(0xF0 + (sm << 2) + sr)];
    if let Some(x) = sx {
        v.push(x);
    }
    match dst {
        Some(d) => {
            let (dm, dr, dx) = mode_of(d);
            v.push(Item::B(second_base + (dm << 2) + dr));
            if let Some(x) = dx {
                v.push(x);
            }
        }
        None => v.push(Item::B(second_base)),
    }
    v
}

fn encode(i: &RInst, addr: usize) -> Vec<Item> {
    let o = &i.ops;
    let rr = |base: u8| vec![Item::B(base + (reg(&o[1]) << 2) + reg(&o[0]))];
    let r1 = |base: u8| vec![Item::B(base + reg(&o[0]))];
    let jr = |cond: u8| vec![Item::B(0x20 + cond), Item::Rel(label(&o[0]), addr + 2)];
    match i.m {
        ".EQU" | "*STACKSIZE" | "*PROGRAMSIZE" | ".ORG" => vec![],
        ".BYTE" => match &o[0] {
            ROp::Num(n) => vec![Item::B(0); *n as usize],
            _ => unreachable!(),
        },
        ".DB" => match &o[0] {
            ROp::Bytes(b) => b.iter().map(|x| Item::B(*x)).collect(),
            _ => unreachable!(),
        },
        ".DW" => match &o[0] {
            ROp::Words(w) => w.iter().flat_map(|x| [Item::B((*x >> 8) as u8), Item::B(*x as u8)]).collect(),
            _ => unreachable!(),
        },
        "CLR" => r1(0x04),
        "ADD" => rr(0x60),
        "ADC" => rr(0x70),
        "SUB" => rr(0x80),
        "AND" => rr(0x90),
        "OR" => rr(0xA0),
        "MUL" => rr(0xB0),
        "DIV" => rr(0xC0),
        "XOR" => rr(0xD0),
        "INC" => r1(0x44),
        "DEC" => {
            let (m, r, x) = mode_of(&o[0]);
            let mut v = vec![Item::B(0x50 + (m << 2) + r)];
            if let Some(x) = x {
                v.push(x);
            }
            v
        }
        "NEG" => r1(0x34),
        "COM" => r1(0x30),
        "TST" => r1(0x48),
        "LSR" => r1(0x38),
        "ASR" => r1(0x3C),
        "RRC" => r1(0x40),
        "LSL" => vec![Item::B(0x60 + (reg(&o[0]) << 2) + reg(&o[0]))],
        "RLC" => vec![Item::B(0x70 + (reg(&o[0]) << 2) + reg(&o[0]))],
        "BITS" => two_byte(0x50, Some(&o[0]), &o[1]),
        "BITC" => two_byte(0x60, Some(&o[0]), &o[1]),
        "CMP" => two_byte(0x20, Some(&o[0]), &o[1]),
        "BITT" => two_byte(0x30, Some(&o[0]), &o[1]),
        "MOV" | "LDC" | "LDM" | "ST" => two_byte(0x10, Some(&o[0]), &o[1]),
        "LDSP" => two_byte(0x40, None, &o[0]),
        "LDFR" => two_byte(0x44, None, &o[0]),
        "PUSH" => r1(0x10),
        "POP" => r1(0x14),
        "PUSHF" => vec![Item::B(0x18)],
        "POPF" => vec![Item::B(0x1C)],
        "JMP" => vec![Item::B(0xFB), Item::L(label(&o[0])), Item::B(0x13)],
        "JR" => jr(0),
        "JCS" => jr(1),
        "JZS" => jr(2),
        "JNS" => jr(3),
        "JCC" => jr(5),
        "JZC" => jr(6),
        "JNC" => jr(7),
        "CALL" => vec![Item::B(0x28), Item::L(label(&o[0]))],
        "RET" => vec![Item::B(0x17)],
        "RETI" => vec![Item::B(0x2C)],
        "STOP" => vec![Item::B(0x01)],
        "NOP" => vec![Item::B(0x02)],
        "EI" => vec![Item::B(0x08)],
        "DI" => vec![Item::B(0x0C)],
        other => panic!("REF-ASM: unknown mnemonic {}", other),
    }
}

pub fn assemble(asm: &RAsm) -> Result<RByteCode, Layout> {
    let mut labels: HashMap<String, u8> = HashMap::new();
    let mut items: Vec<Vec<Item>> = vec![];
    let mut next: usize = 0;
    let mut stack = 16;
    let mut prog = -1;
    let mut layout_err = None;
    for (li, l) in asm.lines.iter().enumerate() {
        let mut line_items = vec![];
        match l {
            RLine::Empty(_) => {}
            RLine::Label(n, _) => {
                labels.insert(n.to_lowercase(), next as u8);
            }
            RLine::Inst(i, _) => {
                match i.m {
                    ".EQU" => {
                        if let (ROp::Label(n), ROp::Num(v)) = (&i.ops[0], &i.ops[1]) {
                            labels.insert(n.to_lowercase(), *v);
                        }
                    }
                    "*STACKSIZE" => {
                        if let ROp::Stack(s) = i.ops[0] {
                            stack = s
                        }
                    }
                    "*PROGRAMSIZE" => {
                        if let ROp::Prog(p) = i.ops[0] {
                            prog = p
                        }
                    }
                    ".ORG" => {
                        if let ROp::Num(to) = i.ops[0] {
                            if (to as usize) < next {
                                if layout_err.is_none() {
                                    layout_err = Some(Layout::BackwardOrg { line: li, at: next, to });
                                }
                            } else {
                                line_items = vec![Item::B(0); to as usize - next];
                            }
                        }
                    }
                    _ => line_items = encode(i, next),
                }
                next += line_items.len();
                // the first layout fault in program order is the one reported
                if next > 255 && layout_err.is_none() {
                    layout_err = Some(Layout::TooLarge { size: next });
                }
            }
        }
        items.push(line_items);
    }
    if let Some(e) = layout_err {
        return Err(e);
    }
    if next > 255 {
        return Err(Layout::TooLarge { size: next });
    }
    let mut lines = vec![];
    for li in items {
        let mut bytes = vec![];
        for it in li {
            match it {
                Item::B(b) => bytes.push(b),
                Item::L(l) => bytes.push(*labels.get(&l.to_lowercase()).ok_or(Layout::UndefinedLabel(l.clone()))?),
                Item::Rel(l, after) => {
                    let t = *labels.get(&l.to_lowercase()).ok_or(Layout::UndefinedLabel(l.clone()))?;
                    bytes.push(t.wrapping_sub(after as u8));
                }
            }
        }
        lines.push(bytes);
    }
    Ok(RByteCode { lines, stack, prog })
}
