//! REF-PARSE: recogniser + AST builder for the documented mrasm language.
//!
//! The language is line oriented: mandatory `#! mrasm` first line (one optional blank, optional
//! `;` comment), then per line one optional label definition *or* instruction and an optional
//! `;` comment. Mnemonics are case-insensitive; registers are R0-R3 (any case) or `PC` (upper case
//! only); labels must not start with R/PC/SP (any case); byte constants 0-255 and words 0-65535 in
//! decimal / `0x` / `0b` with leading zeros. Ordered-choice facts of the language definition
//! (e.g. `256` is rejected rather than read as `25` `6`) are language facts and live here.

use crate::peg::*;

#[derive(Debug, Clone, PartialEq, Eq)]
pub enum RConst {
    Num(u8),
    Label(String),
}

#[derive(Debug, Clone, PartialEq, Eq)]
pub enum ROp {
    /// R0..R3 (PC = 3)
    Reg(u8),
    /// (Rn+)
    Di(u8),
    /// ((Rn+))
    Ddi(u8),
    /// (Rn)
    MemReg(u8),
    /// (const) / (label)
    MemConst(RConst),
    /// const / label as immediate
    Const(RConst),
    /// plain byte (directives)
    Num(u8),
    /// label operand of jumps / .EQU name
    Label(String),
    Bytes(Vec<u8>),
    Words(Vec<u16>),
    /// *STACKSIZE value: 0,16,32,48,64 or -1 for NOSET
    Stack(i32),
    /// *PROGRAMSIZE value: n, -1 = AUTO, -2 = NOSET
    Prog(i32),
}

#[derive(Debug, Clone, PartialEq, Eq)]
pub struct RInst {
    /// canonical upper-case mnemonic; LD is split into "LDC" (constant) and "LDM" (memory)
    pub m: &'static str,
    pub ops: Vec<ROp>,
}

#[derive(Debug, Clone, PartialEq, Eq)]
pub enum RLine {
    Empty(Option<String>),
    Label(String, Option<String>),
    Inst(RInst, Option<String>),
}

#[derive(Debug, Clone, PartialEq, Eq)]
pub struct RAsm {
    pub header_comment: Option<String>,
    pub lines: Vec<RLine>,
}

#[derive(Debug, Clone, PartialEq, Eq)]
pub enum RErr {
    Syntax,
    UndefinedLabels(Vec<String>),
    TooManyLabels,
    /// Both label rules are broken; either report is acceptable.
    TooManyAndUndefined,
}

fn rule(name: &'static str, expr: E) -> Rule {
    Rule { name, expr, silent: false }
}

fn two_regs(m: &'static str) -> E {
    seq(vec![ilit(m), r("sep_ip"), r("register"), r("sep_pp"), r("register")])
}
fn one_reg(m: &'static str) -> E {
    seq(vec![ilit(m), r("sep_ip"), r("register")])
}
fn dst_src(m: &'static str) -> E {
    seq(vec![ilit(m), r("sep_ip"), r("destination"), r("sep_pp"), r("source")])
}
fn one_label(m: &'static str) -> E {
    seq(vec![ilit(m), r("sep_ip"), r("raw_label")])
}

pub fn grammar() -> Grammar {
    let ws = || alt(vec![lit(" "), lit("\t")]);
    let bin_digit = || range('0', '1');
    let hex_digit = || alt(vec![range('0', '9'), range('a', 'f'), range('A', 'F')]);
    let alpha = || alt(vec![range('a', 'z'), range('A', 'Z')]);
    let alnum = || alt(vec![range('a', 'z'), range('A', 'Z'), range('0', '9')]);
    let d = |a: char, b: char| range(a, b);
    let bhd = || alt(vec![r("constant_bin"), r("constant_hex"), r("constant_dec")]);
    let mut rules = vec![
        rule("eol", E::Newline),
        rule("colon", lit(":")),
        rule("semicolon", lit(";")),
        rule("ws", ws()),
        rule("space", plus(r("ws"))),
        rule("oparen", lit("(")),
        rule("cparen", lit(")")),
        rule("plus", lit("+")),
        rule("sep_ip", plus(r("ws"))),
        rule("sep_pp", seq(vec![lit(","), star(r("ws"))])),
        // byte constants 0..=255
        rule("constant_bin", seq(vec![lit("0b"), alt(vec![seq(vec![star(lit("0")), rep(bin_digit(), 1, 8)]), plus(lit("0"))])])),
        rule("constant_hex", seq(vec![lit("0x"), alt(vec![seq(vec![star(lit("0")), rep(hex_digit(), 1, 2)]), plus(lit("0"))])])),
        rule(
            "constant_dec",
            alt(vec![
                seq(vec![
                    star(lit("0")),
                    alt(vec![
                        seq(vec![lit("2"), lit("5"), d('0', '5')]),
                        seq(vec![lit("2"), d('0', '4'), d('0', '9')]),
                        seq(vec![lit("1"), d('0', '9'), d('0', '9')]),
                        seq(vec![d('1', '9'), d('0', '9')]),
                        d('1', '9'),
                    ]),
                ]),
                plus(lit("0")),
            ]),
        ),
        rule("constant_bhd", bhd()),
        rule("constant", alt(vec![r("constant_bin"), r("constant_hex"), r("constant_dec"), r("raw_label")])),
        // words 0..=65535
        rule("word_bin", seq(vec![lit("0b"), alt(vec![seq(vec![star(lit("0")), rep(bin_digit(), 1, 16)]), plus(lit("0"))])])),
        rule("word_hex", seq(vec![lit("0x"), alt(vec![seq(vec![star(lit("0")), rep(hex_digit(), 1, 4)]), plus(lit("0"))])])),
        rule(
            "word_dec",
            alt(vec![
                seq(vec![
                    star(lit("0")),
                    alt(vec![
                        seq(vec![lit("6553"), d('0', '5')]),
                        seq(vec![lit("655"), d('0', '2'), d('0', '9')]),
                        seq(vec![lit("65"), d('0', '4'), d('0', '9'), d('0', '9')]),
                        seq(vec![lit("6"), d('0', '4'), d('0', '9'), d('0', '9'), d('0', '9')]),
                        seq(vec![d('1', '5'), d('0', '9'), d('0', '9'), d('0', '9'), d('0', '9')]),
                        seq(vec![d('1', '9'), d('0', '9'), d('0', '9'), d('0', '9')]),
                        seq(vec![d('1', '9'), d('0', '9'), d('0', '9')]),
                        seq(vec![d('1', '9'), d('0', '9')]),
                        d('1', '9'),
                    ]),
                ]),
                plus(lit("0")),
            ]),
        ),
        rule("word_bhd", alt(vec![r("word_bin"), r("word_hex"), r("word_dec")])),
        rule("rest", star(seq(vec![not(r("eol")), E::Any]))),
        rule(
            "raw_label",
            seq(vec![
                not(alt(vec![ilit("R"), ilit("PC"), ilit("SP")])),
                alt(vec![alpha(), lit("_")]),
                star(alt(vec![alnum(), lit("_")])),
            ]),
        ),
        rule("raw_stacksize", alt(vec![lit("0"), lit("16"), lit("32"), lit("48"), lit("64"), ilit("NOSET")])),
        rule("raw_programsize", alt(vec![r("constant_dec"), ilit("AUTO"), ilit("NOSET")])),
        rule("register", alt(vec![seq(vec![ilit("R"), d('0', '3')]), lit("PC")])),
        rule("registerdi", seq(vec![r("oparen"), r("register"), r("plus"), r("cparen")])),
        rule("registerddi", seq(vec![r("oparen"), r("registerdi"), r("cparen")])),
        rule("memory", seq(vec![r("oparen"), alt(vec![r("constant"), r("register"), r("raw_label")]), r("cparen")])),
        rule("source", alt(vec![r("register"), r("registerdi"), r("registerddi"), r("memory"), r("constant")])),
        rule("destination", alt(vec![r("register"), r("registerdi"), r("registerddi"), r("memory")])),
        rule("org", seq(vec![ilit(".ORG"), r("sep_ip"), bhd()])),
        rule("byte", seq(vec![ilit(".BYTE"), r("sep_ip"), bhd()])),
        rule("db", seq(vec![ilit(".DB"), r("sep_ip"), r("constant_bhd"), star(seq(vec![r("sep_pp"), r("constant_bhd")]))])),
        rule("dw", seq(vec![ilit(".DW"), r("sep_ip"), r("word_bhd"), star(seq(vec![r("sep_pp"), r("word_bhd")]))])),
        rule("equ", seq(vec![ilit(".EQU"), r("sep_ip"), r("raw_label"), r("sep_ip"), r("constant_dec")])),
        rule("stacksize", seq(vec![ilit("*STACKSIZE"), r("sep_ip"), r("raw_stacksize")])),
        rule("programsize", seq(vec![ilit("*PROGRAMSIZE"), r("sep_ip"), r("raw_programsize")])),
        rule("clr", one_reg("CLR")),
        rule("add", two_regs("ADD")),
        rule("adc", two_regs("ADC")),
        rule("sub", two_regs("SUB")),
        rule("mul", two_regs("MUL")),
        rule("div", two_regs("DIV")),
        rule("inc", one_reg("INC")),
        rule("dec", seq(vec![ilit("DEC"), r("sep_ip"), r("source")])),
        rule("and", two_regs("AND")),
        rule("or", two_regs("OR")),
        rule("xor", two_regs("XOR")),
        rule("com", one_reg("COM")),
        rule("neg", one_reg("NEG")),
        rule("bits", dst_src("BITS")),
        rule("bitc", dst_src("BITC")),
        rule("tst", one_reg("TST")),
        rule("cmp", dst_src("CMP")),
        rule("bitt", dst_src("BITT")),
        rule("lsr", one_reg("LSR")),
        rule("asr", one_reg("ASR")),
        rule("lsl", one_reg("LSL")),
        rule("rrc", one_reg("RRC")),
        rule("rlc", one_reg("RLC")),
        rule("mov", dst_src("MOV")),
        rule("ld_const", seq(vec![ilit("LD"), r("sep_ip"), r("register"), r("sep_pp"), r("constant")])),
        rule("ld_memory", seq(vec![ilit("LD"), r("sep_ip"), r("register"), r("sep_pp"), r("memory")])),
        rule("st", seq(vec![ilit("ST"), r("sep_ip"), r("memory"), r("sep_pp"), r("register")])),
        rule("push", one_reg("PUSH")),
        rule("pop", one_reg("POP")),
        rule("pushf", ilit("PUSHF")),
        rule("popf", ilit("POPF")),
        rule("ldsp", seq(vec![ilit("LDSP"), r("sep_ip"), r("source")])),
        rule("ldfr", seq(vec![ilit("LDFR"), r("sep_ip"), r("source")])),
        rule("jmp", one_label("JMP")),
        rule("jcs", one_label("JCS")),
        rule("jcc", one_label("JCC")),
        rule("jzs", one_label("JZS")),
        rule("jzc", one_label("JZC")),
        rule("jns", one_label("JNS")),
        rule("jnc", one_label("JNC")),
        rule("jr", one_label("JR")),
        rule("call", one_label("CALL")),
        rule("ret", ilit("RET")),
        rule("reti", ilit("RETI")),
        rule("stop", ilit("STOP")),
        rule("nop", ilit("NOP")),
        rule("ei", ilit("EI")),
        rule("di", ilit("DI")),
        rule(
            "instruction",
            alt(["org", "byte", "db", "dw", "equ", "stacksize", "programsize", "clr", "add", "adc", "sub", "mul", "div", "inc", "dec", "neg", "and", "or", "xor", "com", "bits", "bitc", "tst", "cmp", "bitt", "lsr", "asr", "lsl", "rrc", "rlc", "mov", "ld_const", "ld_memory", "st", "push", "pop", "pushf", "popf", "ldsp", "ldfr", "jmp", "jcs", "jcc", "jzs", "jzc", "jns", "jnc", "jr", "call", "reti", "ret", "stop", "nop", "ei", "di"]
                .iter()
                .map(|n| r(n))
                .collect()),
        ),
        rule("comment", seq(vec![r("semicolon"), r("rest")])),
        rule("label", seq(vec![r("raw_label"), r("colon")])),
        rule("header", seq(vec![lit("#! mrasm"), opt(r("ws")), opt(r("comment")), alt(vec![r("eol"), E::Eoi])])),
        rule("line", seq(vec![opt(r("space")), opt(alt(vec![r("label"), r("instruction")])), opt(r("space")), opt(r("comment"))])),
    ];
    rules.push(Rule {
        name: "file",
        expr: seq(vec![E::Soi, r("header"), star(seq(vec![r("line"), r("eol")])), r("line"), E::Eoi]),
        silent: true,
    });
    Grammar { rules }
}

fn reg_of(n: &Node, input: &str) -> u8 {
    match n.text(input).to_ascii_lowercase().as_str() {
        "r0" => 0,
        "r1" => 1,
        "r2" => 2,
        "r3" | "pc" => 3,
        other => panic!("REF-PARSE: register text {:?}", other),
    }
}

fn num_of(n: &Node, input: &str) -> u32 {
    let t = n.text(input);
    match n.rule {
        "constant_bin" | "word_bin" => u32::from_str_radix(&t[2..], 2).expect("bin"),
        "constant_hex" | "word_hex" => u32::from_str_radix(&t[2..], 16).expect("hex"),
        "constant_dec" | "word_dec" => t.parse::<u32>().expect("dec"),
        "constant_bhd" | "word_bhd" => num_of(&n.children[0], input),
        other => panic!("REF-PARSE: number rule {}", other),
    }
}

fn byte_of(n: &Node, input: &str) -> u8 {
    let v = num_of(n, input);
    assert!(v <= 255, "REF-PARSE: byte out of range");
    v as u8
}

fn const_of(n: &Node, input: &str) -> RConst {
    // n.rule == "constant"
    let c = &n.children[0];
    if c.rule == "raw_label" {
        RConst::Label(c.text(input).to_string())
    } else {
        RConst::Num(byte_of(c, input))
    }
}

fn di_reg(n: &Node, input: &str) -> u8 {
    reg_of(n.child("register").expect("register in registerdi"), input)
}

fn mem_of(n: &Node, input: &str) -> ROp {
    // oparen X cparen
    let x = &n.children[1];
    match x.rule {
        "constant" => ROp::MemConst(const_of(x, input)),
        "register" => ROp::MemReg(reg_of(x, input)),
        "raw_label" => ROp::MemConst(RConst::Label(x.text(input).to_string())),
        other => panic!("REF-PARSE: memory inner {}", other),
    }
}

fn operand_of(n: &Node, input: &str) -> ROp {
    // n.rule in source | destination
    let x = &n.children[0];
    match x.rule {
        "register" => ROp::Reg(reg_of(x, input)),
        "registerdi" => ROp::Di(di_reg(x, input)),
        "registerddi" => ROp::Ddi(di_reg(x.child("registerdi").expect("di in ddi"), input)),
        "memory" => mem_of(x, input),
        "constant" => ROp::Const(const_of(x, input)),
        other => panic!("REF-PARSE: operand inner {}", other),
    }
}

fn inst_of(n: &Node, input: &str) -> RInst {
    let i = &n.children[0];
    let kids: Vec<&Node> = i.children.iter().filter(|c| !matches!(c.rule, "sep_ip" | "sep_pp")).collect();
    let regs = |ks: &Vec<&Node>| ks.iter().map(|k| ROp::Reg(reg_of(k, input))).collect::<Vec<_>>();
    let (m, ops): (&'static str, Vec<ROp>) = match i.rule {
        "org" => (".ORG", vec![ROp::Num(byte_of(kids[0], input))]),
        "byte" => (".BYTE", vec![ROp::Num(byte_of(kids[0], input))]),
        "db" => (".DB", vec![ROp::Bytes(kids.iter().map(|k| byte_of(k, input)).collect())]),
        "dw" => (
            ".DW",
            vec![ROp::Words(
                kids.iter()
                    .map(|k| {
                        let v = num_of(k, input);
                        assert!(v <= 65535);
                        v as u16
                    })
                    .collect(),
            )],
        ),
        "equ" => (".EQU", vec![ROp::Label(kids[0].text(input).to_string()), ROp::Num(byte_of(kids[1], input))]),
        "stacksize" => {
            let t = kids[0].text(input).to_ascii_lowercase();
            ("*STACKSIZE", vec![ROp::Stack(if t == "noset" { -1 } else { t.parse().expect("stacksize") })])
        }
        "programsize" => {
            let t = kids[0].text(input).to_ascii_lowercase();
            (
                "*PROGRAMSIZE",
                vec![ROp::Prog(match t.as_str() {
                    "auto" => -1,
                    "noset" => -2,
                    _ => byte_of(&kids[0].children[0], input) as i32,
                })],
            )
        }
        "clr" => ("CLR", regs(&kids)),
        "add" => ("ADD", regs(&kids)),
        "adc" => ("ADC", regs(&kids)),
        "sub" => ("SUB", regs(&kids)),
        "mul" => ("MUL", regs(&kids)),
        "div" => ("DIV", regs(&kids)),
        "inc" => ("INC", regs(&kids)),
        "dec" => ("DEC", vec![operand_of(kids[0], input)]),
        "neg" => ("NEG", regs(&kids)),
        "and" => ("AND", regs(&kids)),
        "or" => ("OR", regs(&kids)),
        "xor" => ("XOR", regs(&kids)),
        "com" => ("COM", regs(&kids)),
        "bits" => ("BITS", vec![operand_of(kids[0], input), operand_of(kids[1], input)]),
        "bitc" => ("BITC", vec![operand_of(kids[0], input), operand_of(kids[1], input)]),
        "tst" => ("TST", regs(&kids)),
        "cmp" => ("CMP", vec![operand_of(kids[0], input), operand_of(kids[1], input)]),
        "bitt" => ("BITT", vec![operand_of(kids[0], input), operand_of(kids[1], input)]),
        "lsr" => ("LSR", regs(&kids)),
        "asr" => ("ASR", regs(&kids)),
        "lsl" => ("LSL", regs(&kids)),
        "rrc" => ("RRC", regs(&kids)),
        "rlc" => ("RLC", regs(&kids)),
        "mov" => ("MOV", vec![operand_of(kids[0], input), operand_of(kids[1], input)]),
        "ld_const" => ("LDC", vec![ROp::Reg(reg_of(kids[0], input)), ROp::Const(const_of(kids[1], input))]),
        "ld_memory" => ("LDM", vec![ROp::Reg(reg_of(kids[0], input)), mem_of(kids[1], input)]),
        "st" => ("ST", vec![mem_of(kids[0], input), ROp::Reg(reg_of(kids[1], input))]),
        "push" => ("PUSH", regs(&kids)),
        "pop" => ("POP", regs(&kids)),
        "pushf" => ("PUSHF", vec![]),
        "popf" => ("POPF", vec![]),
        "ldsp" => ("LDSP", vec![operand_of(kids[0], input)]),
        "ldfr" => ("LDFR", vec![operand_of(kids[0], input)]),
        "jmp" => ("JMP", vec![ROp::Label(kids[0].text(input).to_string())]),
        "jcs" => ("JCS", vec![ROp::Label(kids[0].text(input).to_string())]),
        "jcc" => ("JCC", vec![ROp::Label(kids[0].text(input).to_string())]),
        "jzs" => ("JZS", vec![ROp::Label(kids[0].text(input).to_string())]),
        "jzc" => ("JZC", vec![ROp::Label(kids[0].text(input).to_string())]),
        "jns" => ("JNS", vec![ROp::Label(kids[0].text(input).to_string())]),
        "jnc" => ("JNC", vec![ROp::Label(kids[0].text(input).to_string())]),
        "jr" => ("JR", vec![ROp::Label(kids[0].text(input).to_string())]),
        "call" => ("CALL", vec![ROp::Label(kids[0].text(input).to_string())]),
        "ret" => ("RET", vec![]),
        "reti" => ("RETI", vec![]),
        "stop" => ("STOP", vec![]),
        "nop" => ("NOP", vec![]),
        "ei" => ("EI", vec![]),
        "di" => ("DI", vec![]),
        other => panic!("REF-PARSE: instruction rule {}", other),
    };
    RInst { m, ops }
}

fn comment_of(n: &Node, input: &str) -> String {
    let rest = n.child("rest").expect("rest in comment");
    rest.text(input).trim_matches(|c| c == ' ' || c == '\t' || c == ';').to_string()
}

/// Labels referenced by an instruction.
pub fn refs_of(i: &RInst) -> Vec<String> {
    let mut v = vec![];
    for op in &i.ops {
        match op {
            ROp::MemConst(RConst::Label(l)) | ROp::Const(RConst::Label(l)) => v.push(l.clone()),
            ROp::Label(l) if i.m != ".EQU" => v.push(l.clone()),
            _ => {}
        }
    }
    v
}

thread_local! {
    static G: Grammar = grammar();
}

/// REF-PARSE entry point.
pub fn parse(input: &str) -> Result<RAsm, RErr> {
    let nodes = G.with(|g| g.parse("file", input)).ok_or(RErr::Syntax)?;
    let mut header_comment = None;
    let mut lines = vec![];
    for n in &nodes {
        match n.rule {
            "header" => {
                if let Some(c) = n.child("comment") {
                    header_comment = Some(comment_of(c, input));
                }
            }
            "line" => {
                let mut l = RLine::Empty(None);
                for el in &n.children {
                    match el.rule {
                        "space" => {}
                        "label" => l = RLine::Label(el.child("raw_label").expect("label name").text(input).to_string(), None),
                        "instruction" => l = RLine::Inst(inst_of(el, input), None),
                        "comment" => {
                            let c = Some(comment_of(el, input));
                            l = match l {
                                RLine::Empty(_) => RLine::Empty(c),
                                RLine::Label(n, _) => RLine::Label(n, c),
                                RLine::Inst(i, _) => RLine::Inst(i, c),
                            };
                        }
                        other => panic!("REF-PARSE: line element {}", other),
                    }
                }
                lines.push(l);
            }
            _ => {}
        }
    }
    // label rules: at most 40 definitions (labels + .EQU), no undefined reference (case-insensitive)
    let mut defs: Vec<String> = vec![];
    for l in &lines {
        match l {
            RLine::Label(n, _) => defs.push(n.to_lowercase()),
            RLine::Inst(i, _) if i.m == ".EQU" => {
                if let ROp::Label(n) = &i.ops[0] {
                    defs.push(n.to_lowercase())
                }
            }
            _ => {}
        }
    }
    let mut undefined = vec![];
    for l in &lines {
        if let RLine::Inst(i, _) = l {
            for rf in refs_of(i) {
                if !defs.contains(&rf.to_lowercase()) {
                    undefined.push(rf);
                }
            }
        }
    }
    let too_many = defs.len() > 40;
    match (too_many, undefined.is_empty()) {
        (true, false) => Err(RErr::TooManyAndUndefined),
        (true, true) => Err(RErr::TooManyLabels),
        (false, false) => Err(RErr::UndefinedLabels(undefined)),
        (false, true) => Ok(RAsm { header_comment, lines }),
    }
}
