//! REF-CMD: the documented command language of the interactive session.
//!
//!   load PATH | [set] FC|FD|FE|FF = v | set IRG = v | set TEMP|I1|I2 = f | set|unset J1|J2|UIO1-3
//!   | show register|memory | next [N] | quit|exit
//!
//! keywords ASCII-case-insensitive, blanks = space/tab, v in decimal, 0x.. or 0b.. (<= 255),
//! the whole line must be consumed (surrounding blanks allowed).

#[derive(Debug, Clone, PartialEq)]
pub enum Cmd {
    Load(String),
    /// 0 = FC .. 3 = FF
    SetInput(u8, u8),
    Irg(u8),
    Temp(f32),
    I1(f32),
    I2(f32),
    J1(bool),
    J2(bool),
    /// 0..=2
    Uio(u8, bool),
    ShowRegister,
    ShowMemory,
    Next(usize),
    Quit,
    /// `set TEMP|I1|I2 = <something that is not a plain decimal number>`: the documentation only
    /// shows plain decimals (`42.0`, `1.1`); whether other spellings (exponents, `.5`, `5.`, `nan`,
    /// `inf`) are accepted, and with which value, is left to the number library. Either outcome is fine.
    FloatUnspecified,
}

struct P<'a> {
    s: &'a str,
}

impl<'a> P<'a> {
    fn kw(&mut self, k: &str) -> bool {
        match self.s.get(..k.len()) {
            Some(h) if h.eq_ignore_ascii_case(k) => {
                self.s = &self.s[k.len()..];
                true
            }
            _ => false,
        }
    }
    fn ws0(&mut self) {
        self.s = self.s.trim_start_matches([' ', '\t']);
    }
    fn ws1(&mut self) -> bool {
        let n = self.s.len();
        self.ws0();
        self.s.len() < n
    }
    fn eq(&mut self) -> bool {
        let save = self.s;
        self.ws0();
        if self.s.starts_with('=') {
            self.s = &self.s[1..];
            self.ws0();
            true
        } else {
            self.s = save;
            false
        }
    }
    fn take_while(&mut self, f: impl Fn(char) -> bool) -> &'a str {
        let end = self.s.find(|c: char| !f(c)).unwrap_or(self.s.len());
        let (a, b) = self.s.split_at(end);
        self.s = b;
        a
    }
    /// byte value: hex, then binary, then decimal (first spelling that yields a value <= 255)
    fn value_u8(&mut self) -> Option<u8> {
        let save = self.s;
        if self.kw("0x") {
            let d = self.take_while(|c| c.is_ascii_hexdigit());
            if !d.is_empty() {
                if let Ok(v) = u8::from_str_radix(d, 16) {
                    return Some(v);
                }
            }
        }
        self.s = save;
        if self.kw("0b") {
            let d = self.take_while(|c| c == '0' || c == '1');
            if !d.is_empty() {
                if let Ok(v) = u8::from_str_radix(d, 2) {
                    return Some(v);
                }
            }
        }
        self.s = save;
        let d = self.take_while(|c| c.is_ascii_digit());
        if !d.is_empty() {
            if let Ok(v) = d.parse::<u8>() {
                return Some(v);
            }
        }
        self.s = save;
        None
    }
    /// plain decimal: [+-]? digits+ ('.' digits+)?   (must be followed by blanks or the end)
    fn float(&mut self) -> Option<f32> {
        let start = self.s;
        let mut p = P { s: self.s };
        if p.s.starts_with('+') || p.s.starts_with('-') {
            p.s = &p.s[1..];
        }
        if p.take_while(|c| c.is_ascii_digit()).is_empty() {
            return None;
        }
        if p.s.starts_with('.') {
            let mut q = P { s: &p.s[1..] };
            if q.take_while(|c| c.is_ascii_digit()).is_empty() {
                return None;
            }
            p.s = q.s;
        }
        if !(p.s.is_empty() || p.s.starts_with(' ') || p.s.starts_with('\t')) {
            return None;
        }
        let text = &start[..start.len() - p.s.len()];
        let v: f32 = text.parse().ok()?;
        self.s = p.s;
        Some(v)
    }
}

fn alternative(p: &mut P) -> Option<Cmd> {
    let start = p.s;
    // load PATH
    if p.kw("load") && p.ws1() {
        let path = p.s.to_string();
        p.s = "";
        return Some(Cmd::Load(path));
    }
    p.s = start;
    // [set] FC..FF = v
    {
        let save = p.s;
        if !(p.kw("set") && p.ws1()) {
            p.s = save;
        }
        for (i, r) in ["fc", "fd", "fe", "ff"].iter().enumerate() {
            let s2 = p.s;
            if p.kw(r) {
                if p.eq() {
                    if let Some(v) = p.value_u8() {
                        return Some(Cmd::SetInput(i as u8, v));
                    }
                }
                p.s = s2;
                break;
            }
        }
    }
    p.s = start;
    if p.kw("set") && p.ws1() {
        let after_set = p.s;
        if p.kw("irg") && p.eq() {
            if let Some(v) = p.value_u8() {
                return Some(Cmd::Irg(v));
            }
        }
        p.s = after_set;
        if p.kw("temp") && p.eq() {
            if let Some(v) = p.float() {
                return Some(Cmd::Temp(v));
            }
            p.s = "";
            return Some(Cmd::FloatUnspecified);
        }
        p.s = after_set;
        if p.kw("i1") && p.eq() {
            if let Some(v) = p.float() {
                return Some(Cmd::I1(v));
            }
            p.s = "";
            return Some(Cmd::FloatUnspecified);
        }
        p.s = after_set;
        if p.kw("i2") && p.eq() {
            if let Some(v) = p.float() {
                return Some(Cmd::I2(v));
            }
            p.s = "";
            return Some(Cmd::FloatUnspecified);
        }
    }
    for (word, val) in [("set", true), ("unset", false)] {
        p.s = start;
        if p.kw(word) && p.ws1() {
            let after = p.s;
            for (k, c) in [("j1", Cmd::J1(val)), ("j2", Cmd::J2(val))] {
                p.s = after;
                if p.kw(k) {
                    return Some(c);
                }
            }
        }
    }
    for (word, val) in [("set", true), ("unset", false)] {
        p.s = start;
        if p.kw(word) && p.ws1() {
            let after = p.s;
            for i in 0..3u8 {
                p.s = after;
                if p.kw(&format!("uio{}", i + 1)) {
                    return Some(Cmd::Uio(i, val));
                }
            }
        }
    }
    p.s = start;
    if p.kw("show") && p.ws1() {
        if p.kw("register") {
            return Some(Cmd::ShowRegister);
        }
        if p.kw("memory") {
            return Some(Cmd::ShowMemory);
        }
    }
    p.s = start;
    if p.kw("next") {
        let save = p.s;
        if p.ws1() {
            let d = p.take_while(|c| c.is_ascii_digit());
            if !d.is_empty() {
                if let Ok(n) = d.parse::<usize>() {
                    return Some(Cmd::Next(n));
                }
            }
        }
        p.s = save;
        return Some(Cmd::Next(1));
    }
    p.s = start;
    if p.kw("quit") || p.kw("exit") {
        return Some(Cmd::Quit);
    }
    p.s = start;
    None
}

/// None = the line is rejected.
pub fn parse(line: &str) -> Option<Cmd> {
    let mut p = P { s: line };
    p.ws0();
    let c = alternative(&mut p)?;
    p.ws0();
    if p.s.is_empty() {
        Some(c)
    } else {
        None
    }
}
