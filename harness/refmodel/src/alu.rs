//! REF-ALU: the 16 documented ALU functions (doc list in `alu.rs:8-46` + property C08).
//! Rank-3 (frozen) corners: carry-out of A, NOR and ZERO is 0.

/// (result, carry_out, zero_out, negative_out)
pub fn ref_alu(sel: u8, a: u8, b: u8, cin: bool) -> (u8, bool, bool, bool) {
    let a16 = a as u16;
    let b16 = b as u16;
    let (out, c): (u16, bool) = match sel & 0xF {
        // ADDH: add, carry-out = carry-in OR overflow ("keep the carry_in or set it if the sum exceeds 8 bits")
        0x0 => {
            let s = a16 + b16;
            (s, cin || s > 0xFF)
        }
        // A: pass A
        0x1 => (a16, false),
        // NOR
        0x2 => ((!(a | b)) as u16, false),
        // ZERO
        0x3 => (0, false),
        // ADD
        0x4 => {
            let s = a16 + b16;
            (s, s > 0xFF)
        }
        // ADDS: A + B + 1, inverted carry (addition for subtraction: borrow convention)
        0x5 => {
            let s = a16 + b16 + 1;
            (s, !(s > 0xFF))
        }
        // ADC
        0x6 => {
            let s = a16 + b16 + cin as u16;
            (s, s > 0xFF)
        }
        // ADCS: A + B + !carry_in, inverted carry
        0x7 => {
            let s = a16 + b16 + (!cin) as u16;
            (s, !(s > 0xFF))
        }
        // LSR
        0x8 => (a16 >> 1, a & 1 != 0),
        // RR: highest bit := lowest bit of the input
        0x9 => ((a16 >> 1) | ((a16 & 1) << 7), a & 1 != 0),
        // RRC: highest bit := carry in
        0xA => ((a16 >> 1) | ((cin as u16) << 7), a & 1 != 0),
        // ASR: highest bit stays
        0xB => ((a16 >> 1) | (a16 & 0x80), a & 1 != 0),
        // B, SETC, BH, INVC
        0xC => (b16, false),
        0xD => (b16, true),
        0xE => (b16, cin),
        _ => (b16, !cin),
    };
    let out = (out & 0xFF) as u8;
    (out, c, out == 0, out & 0x80 != 0)
}

pub const ALU_NAMES: [&str; 16] = [
    "ADDH", "A", "NOR", "ZERO", "ADD", "ADDS", "ADC", "ADCS", "LSR", "RR", "RRC", "ASR", "B",
    "SETC", "BH", "INVC",
];
