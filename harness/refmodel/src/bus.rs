//! REF-BUS: the address map of the bus as a plain struct. The board behind 0xF0-0xF3 is a type
//! parameter so C10 can plug the real `Board` (its semantics are C14's subject).

pub trait BoardPort {
    fn port_read(&self, addr: u8) -> u8;
    fn port_write(&mut self, addr: u8, b: u8);
}

impl BoardPort for crate::board::RBoard {
    fn port_read(&self, addr: u8) -> u8 {
        self.read(addr)
    }
    fn port_write(&mut self, addr: u8, b: u8) {
        self.write(addr, b)
    }
}

#[derive(Debug, Clone, PartialEq)]
pub struct RBus<B: BoardPort> {
    pub ram: [u8; 240],
    pub input: [u8; 4],
    pub out: [u8; 2],
    /// interrupt enable mask written at 0xF9 (6 bits)
    pub micr: u8,
    /// interrupt status read at 0xF9
    pub misr: u8,
    pub board: B,
}

impl<B: BoardPort> RBus<B> {
    pub fn new(board: B) -> Self {
        RBus { ram: [0; 240], input: [0; 4], out: [0; 2], micr: 0, misr: 0, board }
    }
    pub fn read(&self, a: u8) -> u8 {
        match a {
            0x00..=0xEF => self.ram[a as usize],
            0xF0..=0xF3 => self.board.port_read(a),
            0xF4..=0xF8 => 0,
            0xF9 => self.misr,
            // UART receive / status: nothing ever arrives
            0xFA | 0xFB => 0,
            _ => self.input[(a - 0xFC) as usize],
        }
    }
    pub fn write(&mut self, a: u8, v: u8) {
        match a {
            0x00..=0xEF => self.ram[a as usize] = v,
            0xF0..=0xF3 => self.board.port_write(a, v),
            0xF9 => self.micr = v & 0x3F,
            0xFE => self.out[0] = v,
            0xFF => self.out[1] = v,
            // 0xF4-0xF8 nothing; 0xFA UART send, 0xFB UART control, 0xFC/0xFD timer: no observable register
            _ => {}
        }
    }
    pub fn key_edge_enabled(&self) -> bool {
        self.micr & 1 != 0
    }
}
