//! REF-ISA: instruction-level interpreter of the Minirechner 2a (no micro-steps, no pipeline).
//!
//! Sources, in order of authority: explicit clauses of property C01; the repository's
//! documentation (instruction table in `compiler.rs`, ALU doc list, bus table); and, for corners
//! neither pins down, the behaviour of the unmodified tree *frozen* here (see FROZEN.md).
//!
//! Register model: R0-R2, PC (=R3, live: an instruction that names R3/PC as an operand sees the
//! address of the next not-yet-fetched byte), FR (=R4, all 8 bits), SP (=R5). The microcode scratch
//! registers R6/R7 are not modelled.
//!
//! Cost model (C15): `words` = control words executed between two instruction boundaries
//! (including the next fetch word), `waits` = one per word that reads or writes an address
//! 0x00..=0xEF (the opcode fetch included). Edges between boundaries = words + waits.

pub trait Mem {
    fn read(&mut self, addr: u8) -> u8;
    fn write(&mut self, addr: u8, val: u8);
}

#[derive(Debug, Clone, Copy, PartialEq, Eq, Hash)]
pub struct Cpu {
    pub r: [u8; 3],
    pub pc: u8,
    pub fr: u8,
    pub sp: u8,
}

pub const CF: u8 = 1;
pub const ZF: u8 = 2;
pub const NF: u8 = 4;
pub const IEF: u8 = 8;

#[derive(Debug, Clone, Copy, PartialEq, Eq, Hash)]
pub enum Outcome {
    /// Completed; the CPU is at the next instruction boundary.
    Done,
    /// Opcode 0x01 was loaded into the instruction register (first or second byte): regular stop.
    Stop,
    /// Opcode 0x00 was loaded into the instruction register: error stop.
    ErrorStop,
    /// Undefined opcode (first or second byte): the sequencer never reaches a boundary again.
    Hang,
}

#[derive(Debug, Clone, PartialEq, Eq)]
pub struct StepInfo {
    pub outcome: Outcome,
    pub form: &'static str,
    /// Control words between the boundaries, incl. the closing fetch word.
    pub words: u32,
    /// Wait cycles (one per RAM-touching word, incl. the opening opcode fetch).
    pub waits: u32,
    /// Every value the SP took during the instruction (for supervision predictions).
    pub sp_values: Vec<u8>,
    /// Every value the PC took after a register write (incl. fetch increments).
    pub pc_values: Vec<u8>,
    /// Whether the interrupt entry sequence ran at the end of this instruction.
    pub int_taken: bool,
    /// Whether the end of the instruction sampled (and thereby consumed) the interrupt latch.
    pub int_sampled: bool,
}

struct Ex<'a, M: Mem> {
    c: &'a mut Cpu,
    m: &'a mut M,
    words: u32,
    waits: u32,
    sp_values: Vec<u8>,
    pc_values: Vec<u8>,
}

impl<'a, M: Mem> Ex<'a, M> {
    /// One control word that reads `addr`.
    fn rd(&mut self, addr: u8) -> u8 {
        if addr <= 0xEF {
            self.waits += 1;
        }
        self.m.read(addr)
    }
    /// One control word that writes `addr` (the word also drives a read of the same address).
    fn wr(&mut self, addr: u8, v: u8) {
        if addr <= 0xEF {
            self.waits += 1;
        }
        self.m.write(addr, v)
    }
    fn w(&mut self, n: u32) {
        self.words += n;
    }
    fn reg(&self, n: u8) -> u8 {
        match n & 3 {
            3 => self.c.pc,
            i => self.c.r[i as usize],
        }
    }
    fn set_reg(&mut self, n: u8, v: u8) {
        match n & 3 {
            3 => {
                self.c.pc = v;
                self.pc_values.push(v);
            }
            i => self.c.r[i as usize] = v,
        }
    }
    fn set_sp(&mut self, v: u8) {
        self.c.sp = v;
        self.sp_values.push(v);
    }
    fn set_pc(&mut self, v: u8) {
        self.c.pc = v;
        self.pc_values.push(v);
    }
    fn flags(&mut self, c: bool, v: u8) {
        let mut f = self.c.fr & !(CF | ZF | NF);
        if c {
            f |= CF;
        }
        if v == 0 {
            f |= ZF;
        }
        if v & 0x80 != 0 {
            f |= NF;
        }
        self.c.fr = f;
    }
    fn carry(&self) -> bool {
        self.c.fr & CF != 0
    }
    /// Interrupt entry micro-routine starting at its k-th word (k = 0: complete entry).
    /// Words 010..016: DEC SP / (SP)<-FR / DEC SP / (SP)<-PC / DI (2 words) / PC<-2.
    fn int_entry_from(&mut self, k: u8) {
        if k == 0 {
            self.w(1);
            let s = self.c.sp.wrapping_sub(1);
            self.set_sp(s);
        }
        if k <= 1 {
            self.w(1);
            let (a, v) = (self.c.sp, self.c.fr);
            self.wr(a, v);
        }
        if k <= 2 {
            self.w(1);
            let s = self.c.sp.wrapping_sub(1);
            self.set_sp(s);
        }
        self.w(1);
        let (a, v) = (self.c.sp, self.c.pc);
        self.wr(a, v);
        self.w(2);
        self.c.fr &= 0x07;
        self.w(1);
        self.set_pc(2);
    }
}

pub fn defined_first(b: u8) -> bool {
    !((0x4C..=0x4F).contains(&b) || (0xE0..=0xEF).contains(&b))
}

/// Second bytes after 0xF0..=0xFF from which the sequencer reaches a boundary again
/// (0x00/0x01 halt the machine at the load instead).
pub fn defined_second(b: u8) -> bool {
    matches!(b, 0x00..=0x47 | 0x50..=0x6F)
}

pub const COND_NAMES: [&str; 8] = ["JR", "JCS", "JZS", "JNS", "JR-never", "JCC", "JZC", "JNC"];

/// Execute one instruction starting at an instruction boundary. `int_latch` is the pending
/// key-edge interrupt flip-flop; it is consumed by every instruction end that samples it.
pub fn step<M: Mem>(c: &mut Cpu, m: &mut M, int_latch: &mut bool) -> StepInfo {
    let mut x = Ex {
        c,
        m,
        words: 0,
        waits: 0,
        sp_values: vec![],
        pc_values: vec![],
    };
    // opcode fetch (performed by the fetch word that opened this boundary)
    let pc = x.c.pc;
    let op = x.rd(pc);
    x.set_pc(pc.wrapping_add(1));
    let mut outcome = Outcome::Done;
    let mut samples_int = true;
    let lo = op & 3;
    let rs = (op >> 2) & 3;
    let form: &'static str;
    if op == 0x00 {
        form = "ERR00";
        outcome = Outcome::ErrorStop;
    } else if op == 0x01 {
        form = "STOP";
        outcome = Outcome::Stop;
    } else {
        match op >> 4 {
            0x0 => match rs {
                0 => {
                    form = "NOP";
                    x.w(1);
                }
                1 => {
                    form = "CLR";
                    x.w(1);
                    x.set_reg(lo, 0);
                }
                2 => {
                    form = "EI";
                    x.w(2);
                    x.c.fr |= 0xF8;
                    samples_int = false;
                }
                _ => {
                    form = "DI";
                    x.w(2);
                    x.c.fr &= 0x07;
                    samples_int = false;
                }
            },
            0x1 => match rs {
                0 | 2 => {
                    form = if rs == 0 { "PUSH" } else { "PUSHF" };
                    let v = if rs == 0 { x.reg(lo) } else { x.c.fr };
                    x.w(3);
                    let s = x.c.sp.wrapping_sub(1);
                    x.set_sp(s);
                    x.wr(s, v);
                }
                1 => {
                    form = "POP";
                    x.w(3);
                    let a = x.c.sp;
                    let v = x.rd(a);
                    x.set_reg(lo, v);
                    x.set_sp(a.wrapping_add(1));
                }
                _ => {
                    form = "POPF";
                    x.w(2);
                    let a = x.c.sp;
                    let v = x.rd(a);
                    x.c.fr = v;
                    x.set_sp(a.wrapping_add(1));
                }
            },
            0x2 => match rs {
                0 | 1 => {
                    let cond = match lo {
                        0 => true,
                        1 => x.c.fr & CF != 0,
                        2 => x.c.fr & ZF != 0,
                        _ => x.c.fr & NF != 0,
                    };
                    let taken = cond ^ (rs == 1);
                    x.w(2);
                    if taken {
                        form = "JR-taken";
                        let a = x.c.pc;
                        let off = x.rd(a);
                        x.set_pc(a.wrapping_add(1).wrapping_add(off));
                    } else {
                        form = "JR-not-taken";
                        let a = x.c.pc;
                        x.set_pc(a.wrapping_add(1));
                    }
                }
                2 => {
                    form = "CALL";
                    x.w(5);
                    let s = x.c.sp.wrapping_sub(1);
                    x.set_sp(s);
                    let operand_addr = x.c.pc;
                    let ret = operand_addr.wrapping_add(1);
                    x.set_pc(ret);
                    x.wr(s, ret);
                    let t = x.rd(operand_addr);
                    x.set_pc(t);
                }
                _ => {
                    form = "RETI";
                    x.w(4);
                    let a = x.c.sp;
                    let v = x.rd(a);
                    x.set_pc(v);
                    x.set_sp(a.wrapping_add(1));
                    let a = x.c.sp;
                    let f = x.rd(a);
                    x.c.fr = f;
                    x.set_sp(a.wrapping_add(1));
                    samples_int = false;
                }
            },
            0x3 => {
                let v = x.reg(lo);
                match rs {
                    0 => {
                        form = "COM";
                        x.w(1);
                        let r = !v;
                        x.set_reg(lo, r);
                        x.flags(false, r);
                    }
                    1 => {
                        form = "NEG";
                        x.w(2);
                        let r = (!v).wrapping_add(1);
                        x.set_reg(lo, r);
                        // frozen: carry = carry of (~v + 1), i.e. set exactly for v == 0
                        x.flags(v == 0, r);
                    }
                    2 => {
                        form = "LSR";
                        x.w(1);
                        let r = v >> 1;
                        x.set_reg(lo, r);
                        x.flags(v & 1 != 0, r);
                    }
                    _ => {
                        form = "ASR";
                        x.w(1);
                        let r = (v >> 1) | (v & 0x80);
                        x.set_reg(lo, r);
                        x.flags(v & 1 != 0, r);
                    }
                }
            }
            0x4 => {
                let v = x.reg(lo);
                match rs {
                    0 => {
                        form = "RRC";
                        x.w(1);
                        let r = (v >> 1) | ((x.carry() as u8) << 7);
                        x.set_reg(lo, r);
                        x.flags(v & 1 != 0, r);
                    }
                    1 => {
                        form = "INC";
                        x.w(1);
                        let r = v.wrapping_add(1);
                        x.set_reg(lo, r);
                        // frozen: carry = overflow of the increment
                        x.flags(v == 0xFF, r);
                    }
                    2 => {
                        form = "TST";
                        x.w(1);
                        // frozen: TST clears carry (ALU pass-A function has carry-out 0)
                        x.flags(false, v);
                    }
                    _ => {
                        form = "UNDEF-4C";
                        outcome = Outcome::Hang;
                    }
                }
            }
            0x5 => {
                // DEC with the four addressing modes (mode = rs field)
                match rs {
                    0 => {
                        form = "DEC-R";
                        x.w(1);
                        let v = x.reg(lo);
                        let r = v.wrapping_sub(1);
                        x.set_reg(lo, r);
                        x.flags(v == 0, r);
                    }
                    1 => {
                        form = "DEC-(R)";
                        x.w(3);
                        let a = x.reg(lo);
                        let v = x.rd(a);
                        let r = v.wrapping_sub(1);
                        x.flags(v == 0, r);
                        x.wr(a, r);
                    }
                    2 => {
                        form = "DEC-(R+)";
                        x.w(4);
                        let a = x.reg(lo);
                        let v = x.rd(a);
                        let r = v.wrapping_sub(1);
                        x.flags(v == 0, r);
                        x.wr(a, r);
                        let p = x.reg(lo);
                        x.set_reg(lo, p.wrapping_add(1));
                    }
                    _ => {
                        form = "DEC-((R+))";
                        x.w(5);
                        let p = x.reg(lo);
                        let a = x.rd(p);
                        let v = x.rd(a);
                        let r = v.wrapping_sub(1);
                        x.flags(v == 0, r);
                        x.wr(a, r);
                        let p = x.reg(lo);
                        x.set_reg(lo, p.wrapping_add(1));
                    }
                }
            }
            0x6 | 0x7 => {
                let adc = op >> 4 == 7;
                form = if adc { "ADC" } else { "ADD" };
                x.w(1);
                let s = x.reg(lo) as u16 + x.reg(rs) as u16 + (adc && x.carry()) as u16;
                x.set_reg(lo, s as u8);
                x.flags(s > 0xFF, s as u8);
            }
            0x8 => {
                form = "SUB";
                x.w(3);
                let (d, s) = (x.reg(lo), x.reg(rs));
                let r = d.wrapping_sub(s);
                x.set_reg(lo, r);
                x.flags(d < s, r);
            }
            0x9 => {
                form = "AND";
                x.w(6);
                let r = x.reg(lo) & x.reg(rs);
                x.set_reg(lo, r);
                x.flags(false, r);
            }
            0xA => {
                form = "OR";
                x.w(4);
                let r = x.reg(lo) | x.reg(rs);
                x.set_reg(lo, r);
                x.flags(false, r);
            }
            0xB => {
                form = "MUL";
                let (d, s) = (x.reg(lo), x.reg(rs));
                let p = d as u16 * s as u16;
                // words: MOV R6,Rs; MOV R7,0; per multiplier bit position i up to the highest set
                // bit: LSR Rd + TST Rd, + ADD if the bit is set, + LSL R6 if higher bits remain;
                // for d == 0: LSR + TST; finally MOV Rd,R7.
                let mut w = 2;
                let mut rem = d;
                loop {
                    w += 1; // LSR Rd
                    let bit = rem & 1;
                    rem >>= 1;
                    if bit == 1 {
                        w += 1; // ADD R7,R6
                    }
                    w += 1; // TST Rd
                    if rem == 0 {
                        break;
                    }
                    w += 1; // LSL R6
                }
                w += 1; // MOV Rd,R7
                x.w(w);
                x.set_reg(lo, p as u8);
                // statement: carry exactly when the product exceeds 255
                x.flags(p > 0xFF, p as u8);
            }
            0xC => {
                form = "DIV";
                let (d, s) = (x.reg(lo), x.reg(rs));
                if s == 0 {
                    // words: MOV R6,Rs ; MOV R7,-1 ; SETC ; MOV Rd,R7
                    x.w(4);
                    x.set_reg(lo, 0xFF);
                    let mut f = x.c.fr & !(CF | ZF | NF);
                    f |= CF | NF;
                    x.c.fr = f;
                } else {
                    let q = d / s;
                    // words: MOV R6,Rs ; MOV R7,0 ; COM R6 ; (q+1) x SUB ; q x INC R7 ; MOV Rd,R7
                    x.w(3 + (q as u32 + 1) + q as u32 + 1);
                    x.set_reg(lo, q);
                    x.flags(false, q);
                }
            }
            0xD => {
                form = "XOR";
                x.w(7);
                let r = x.reg(lo) ^ x.reg(rs);
                x.set_reg(lo, r);
                x.flags(false, r);
            }
            0xE => {
                form = "UNDEF-E";
                outcome = Outcome::Hang;
            }
            _ => {
                // two-byte group: source operand first
                let mode = rs;
                let src = match mode {
                    0 => {
                        x.w(1);
                        x.reg(lo)
                    }
                    1 => {
                        x.w(1);
                        let a = x.reg(lo);
                        x.rd(a)
                    }
                    2 => {
                        x.w(2);
                        let a = x.reg(lo);
                        let v = x.rd(a);
                        let p = x.reg(lo);
                        x.set_reg(lo, p.wrapping_add(1));
                        v
                    }
                    _ => {
                        x.w(3);
                        let p = x.reg(lo);
                        let a = x.rd(p);
                        let v = x.rd(a);
                        let p = x.reg(lo);
                        x.set_reg(lo, p.wrapping_add(1));
                        v
                    }
                };
                // second opcode
                x.w(1);
                let pc = x.c.pc;
                let b2 = x.rd(pc);
                x.set_pc(pc.wrapping_add(1));
                let dlo = b2 & 3;
                let dmode = (b2 >> 2) & 3;
                if b2 == 0x00 {
                    form = "2B-ERR00";
                    outcome = Outcome::ErrorStop;
                } else if b2 == 0x01 {
                    form = "2B-STOP";
                    outcome = Outcome::Stop;
                } else {
                    match b2 >> 4 {
                        0x0 => {
                            // frozen: the second byte lands in the interrupt-entry routine
                            form = "2B-SWI";
                            x.int_entry_from(dmode);
                            samples_int = false;
                        }
                        0x1 => {
                            form = "MOV";
                            match dmode {
                                0 => {
                                    x.w(1);
                                    x.set_reg(dlo, src);
                                }
                                1 => {
                                    x.w(1);
                                    let a = x.reg(dlo);
                                    x.wr(a, src);
                                }
                                2 => {
                                    x.w(2);
                                    let a = x.reg(dlo);
                                    x.wr(a, src);
                                    let p = x.reg(dlo);
                                    x.set_reg(dlo, p.wrapping_add(1));
                                }
                                _ => {
                                    x.w(3);
                                    let p = x.reg(dlo);
                                    let a = x.rd(p);
                                    x.wr(a, src);
                                    let p = x.reg(dlo);
                                    x.set_reg(dlo, p.wrapping_add(1));
                                }
                            }
                        }
                        0x2 | 0x3 => {
                            let cmp = b2 >> 4 == 2;
                            form = if cmp { "CMP" } else { "BITT" };
                            // destination operand value (read only)
                            let d = match dmode {
                                0 => {
                                    x.w(1);
                                    x.reg(dlo)
                                }
                                1 => {
                                    x.w(1);
                                    let a = x.reg(dlo);
                                    x.rd(a)
                                }
                                2 => {
                                    x.w(2);
                                    let a = x.reg(dlo);
                                    let v = x.rd(a);
                                    let p = x.reg(dlo);
                                    x.set_reg(dlo, p.wrapping_add(1));
                                    v
                                }
                                _ => {
                                    x.w(3);
                                    let p = x.reg(dlo);
                                    let a = x.rd(p);
                                    let v = x.rd(a);
                                    let p = x.reg(dlo);
                                    x.set_reg(dlo, p.wrapping_add(1));
                                    v
                                }
                            };
                            if cmp {
                                x.w(2);
                                x.flags(d < src, d.wrapping_sub(src));
                            } else {
                                x.w(3);
                                x.flags(false, d & src);
                            }
                        }
                        0x4 => match dmode {
                            0 => {
                                form = "LDSP";
                                x.w(1);
                                x.set_sp(src);
                                // frozen: LDSP updates C (cleared), Z, N from the loaded value
                                x.flags(false, src);
                            }
                            1 => {
                                form = "LDFR";
                                x.w(1);
                                x.c.fr = src;
                            }
                            _ => {
                                form = "2B-UNDEF-48";
                                outcome = Outcome::Hang;
                            }
                        },
                        0x5 | 0x6 => {
                            let bits = b2 >> 4 == 5;
                            form = if bits { "BITS" } else { "BITC" };
                            let f = |d: u8| if bits { d | src } else { d & !src };
                            match dmode {
                                0 => {
                                    x.w(if bits { 3 } else { 4 });
                                    let r = f(x.reg(dlo));
                                    x.set_reg(dlo, r);
                                    x.flags(false, r);
                                }
                                1 => {
                                    x.w(if bits { 3 } else { 4 });
                                    let a = x.reg(dlo);
                                    let r = f(x.rd(a));
                                    x.flags(false, r);
                                    x.wr(a, r);
                                }
                                2 => {
                                    x.w(if bits { 4 } else { 5 });
                                    let a = x.reg(dlo);
                                    let r = f(x.rd(a));
                                    x.flags(false, r);
                                    x.wr(a, r);
                                    let p = x.reg(dlo);
                                    x.set_reg(dlo, p.wrapping_add(1));
                                }
                                _ => {
                                    x.w(if bits { 5 } else { 7 });
                                    let p = x.reg(dlo);
                                    let a = x.rd(p);
                                    let r = f(x.rd(a));
                                    x.flags(false, r);
                                    if bits {
                                        x.wr(a, r);
                                    } else {
                                        // BITC re-reads the pointer before the store
                                        let p = x.reg(dlo);
                                        let a2 = x.rd(p);
                                        x.wr(a2, r);
                                    }
                                    let p = x.reg(dlo);
                                    x.set_reg(dlo, p.wrapping_add(1));
                                }
                            }
                        }
                        _ => {
                            form = "2B-UNDEF";
                            outcome = Outcome::Hang;
                        }
                    }
                }
            }
        }
    }
    let mut int_taken = false;
    let mut int_sampled = false;
    if outcome == Outcome::Done {
        if samples_int {
            // the closing word samples IEF && latch and clears the latch either way
            if *int_latch {
                int_sampled = true;
                if x.c.fr & IEF != 0 {
                    int_taken = true;
                }
                *int_latch = false;
            }
            if int_taken {
                x.w(1); // the "int:" word
                x.int_entry_from(0);
            }
        }
        x.w(1); // closing fetch word
    }
    StepInfo {
        outcome,
        form,
        words: x.words,
        waits: x.waits,
        sp_values: x.sp_values,
        pc_values: x.pc_values,
        int_taken,
        int_sampled,
    }
}

/// Plain memory: 240 bytes RAM, input registers FC..FF, output registers FE/FF; 0xF0..=0xFB
/// read 0 and ignore writes (sweeps that use this memory keep data addresses out of that range).
#[derive(Clone, PartialEq, Eq)]
pub struct PlainMem {
    pub ram: [u8; 240],
    pub input: [u8; 4],
    pub out: [u8; 2],
    pub io_touched: bool,
}

impl PlainMem {
    pub fn new() -> Self {
        PlainMem {
            ram: [0; 240],
            input: [0; 4],
            out: [0; 2],
            io_touched: false,
        }
    }
}

impl Default for PlainMem {
    fn default() -> Self {
        Self::new()
    }
}

impl Mem for PlainMem {
    fn read(&mut self, a: u8) -> u8 {
        match a {
            0..=0xEF => self.ram[a as usize],
            0xFC..=0xFF => self.input[(a - 0xFC) as usize],
            _ => {
                self.io_touched = true;
                0
            }
        }
    }
    fn write(&mut self, a: u8, v: u8) {
        match a {
            0..=0xEF => self.ram[a as usize] = v,
            0xFE => self.out[0] = v,
            0xFF => self.out[1] = v,
            _ => self.io_touched = true,
        }
    }
}
