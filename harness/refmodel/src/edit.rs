//! REF-EDIT: the documented editing keys of the input line (everything except completion).

#[derive(Debug, Clone, Copy, PartialEq, Eq, Hash)]
pub enum Key {
    Char(char),
    Enter,
    Tab,
    BackTab,
    Left,
    Right,
    Up,
    Down,
    Home,
    End,
    Backspace,
    Delete,
}

#[derive(Debug, Clone, PartialEq, Eq, Hash, Default)]
pub struct Editor {
    pub input: Vec<char>,
    pub cursor: usize,
    pub history: Vec<String>,
    pub hidx: Option<usize>,
}

impl Editor {
    /// Apply an editing key (not Enter/Tab/BackTab, which the session handles).
    pub fn key(&mut self, k: Key) {
        match k {
            Key::Char(c) => {
                self.input.insert(self.cursor, c);
                self.cursor += 1;
            }
            Key::Backspace => {
                if self.cursor > 0 {
                    self.cursor -= 1;
                    self.input.remove(self.cursor);
                }
            }
            Key::Delete => {
                if self.cursor < self.input.len() {
                    self.input.remove(self.cursor);
                }
            }
            Key::Home => self.cursor = 0,
            Key::End => self.cursor = self.input.len(),
            Key::Left => self.cursor = self.cursor.saturating_sub(1),
            Key::Right => self.cursor = (self.cursor + 1).min(self.input.len()),
            Key::Up => {
                let target = match self.hidx {
                    Some(i) if i > 0 => Some(i - 1),
                    None if !self.history.is_empty() => Some(self.history.len() - 1),
                    _ => None,
                };
                if let Some(t) = target {
                    self.hidx = Some(t);
                    self.input = self.history[t].chars().collect();
                    self.cursor = self.input.len();
                }
            }
            Key::Down => match self.hidx {
                Some(i) if i + 1 < self.history.len() => {
                    self.hidx = Some(i + 1);
                    self.input = self.history[i + 1].chars().collect();
                    self.cursor = self.input.len();
                }
                Some(_) => {
                    self.hidx = None;
                    self.input.clear();
                    self.cursor = 0;
                }
                None => {}
            },
            Key::Enter | Key::Tab | Key::BackTab => {}
        }
    }
    /// Submit the line: it moves to the history, the editor is cleared.
    pub fn submit(&mut self) -> Option<String> {
        let line: String = self.input.iter().collect();
        let r = if self.input.is_empty() { None } else { Some(line.clone()) };
        if !self.input.is_empty() {
            self.history.push(line);
        }
        self.input.clear();
        self.cursor = 0;
        self.hidx = None;
        r
    }
}
