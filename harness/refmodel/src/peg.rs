//! A tiny PEG interpreter (ordered choice, greedy repetition, no implicit whitespace) used by
//! REF-PARSE. The grammar it runs is a hand transcription of the documented mrasm language
//! (`refmodel/src/mrasm.rs`), not the subject's `.pest` file.

#[derive(Debug, Clone)]
pub enum E {
    /// Case-sensitive literal.
    Lit(&'static str),
    /// ASCII-case-insensitive literal.
    ILit(&'static str),
    /// Inclusive char range.
    Range(char, char),
    /// Any one char.
    Any,
    Soi,
    Eoi,
    /// "\n" | "\r\n" | "\r"
    Newline,
    Seq(Vec<E>),
    Alt(Vec<E>),
    Star(Box<E>),
    Plus(Box<E>),
    Opt(Box<E>),
    /// Greedy bounded repetition {min,max}.
    Rep(Box<E>, usize, usize),
    Not(Box<E>),
    /// Reference to a named rule (produces a node unless the rule is silent).
    R(&'static str),
}

#[derive(Debug, Clone, PartialEq, Eq)]
pub struct Node {
    pub rule: &'static str,
    pub start: usize,
    pub end: usize,
    pub children: Vec<Node>,
}

impl Node {
    pub fn text<'a>(&self, input: &'a str) -> &'a str {
        &input[self.start..self.end]
    }
    pub fn child(&self, rule: &str) -> Option<&Node> {
        self.children.iter().find(|c| c.rule == rule)
    }
}

pub struct Rule {
    pub name: &'static str,
    pub expr: E,
    pub silent: bool,
}

pub struct Grammar {
    pub rules: Vec<Rule>,
}

impl Grammar {
    fn rule(&self, name: &str) -> &Rule {
        self.rules.iter().find(|r| r.name == name).unwrap_or_else(|| panic!("REF-PARSE: unknown rule {}", name))
    }

    /// Parse `input` with rule `start`; returns the produced nodes if the rule matches a prefix
    /// (use Eoi inside the grammar to demand full consumption).
    pub fn parse(&self, start: &str, input: &str) -> Option<Vec<Node>> {
        let mut out = vec![];
        self.run_rule(self.rule(start), input, 0, &mut out).map(|_| out)
    }

    fn run_rule(&self, r: &Rule, input: &str, pos: usize, out: &mut Vec<Node>) -> Option<usize> {
        if r.silent {
            return self.run(&r.expr, input, pos, out);
        }
        let mut kids = vec![];
        let end = self.run(&r.expr, input, pos, &mut kids)?;
        out.push(Node { rule: r.name, start: pos, end, children: kids });
        Some(end)
    }

    fn run(&self, e: &E, input: &str, pos: usize, out: &mut Vec<Node>) -> Option<usize> {
        match e {
            E::Lit(s) => {
                if input.get(pos..).map(|r| r.starts_with(s)).unwrap_or(false) {
                    Some(pos + s.len())
                } else {
                    None
                }
            }
            E::ILit(s) => match input.get(pos..pos + s.len()) {
                Some(t) if t.eq_ignore_ascii_case(s) => Some(pos + s.len()),
                _ => None,
            },
            E::Range(a, b) => {
                let c = input.get(pos..)?.chars().next()?;
                if c >= *a && c <= *b {
                    Some(pos + c.len_utf8())
                } else {
                    None
                }
            }
            E::Any => {
                let c = input.get(pos..)?.chars().next()?;
                Some(pos + c.len_utf8())
            }
            E::Soi => {
                if pos == 0 {
                    Some(pos)
                } else {
                    None
                }
            }
            E::Eoi => {
                if pos == input.len() {
                    Some(pos)
                } else {
                    None
                }
            }
            E::Newline => {
                let rest = input.get(pos..)?;
                if rest.starts_with("\r\n") {
                    Some(pos + 2)
                } else if rest.starts_with('\n') || rest.starts_with('\r') {
                    Some(pos + 1)
                } else {
                    None
                }
            }
            E::Seq(items) => {
                let mark = out.len();
                let mut p = pos;
                for it in items {
                    match self.run(it, input, p, out) {
                        Some(np) => p = np,
                        None => {
                            out.truncate(mark);
                            return None;
                        }
                    }
                }
                Some(p)
            }
            E::Alt(items) => {
                for it in items {
                    let mark = out.len();
                    if let Some(p) = self.run(it, input, pos, out) {
                        return Some(p);
                    }
                    out.truncate(mark);
                }
                None
            }
            E::Star(inner) => {
                let mut p = pos;
                loop {
                    let mark = out.len();
                    match self.run(inner, input, p, out) {
                        Some(np) if np > p => p = np,
                        Some(_) => {
                            // zero-width match: stop (cannot make progress)
                            break;
                        }
                        None => {
                            out.truncate(mark);
                            break;
                        }
                    }
                }
                Some(p)
            }
            E::Plus(inner) => {
                let mark = out.len();
                let first = match self.run(inner, input, pos, out) {
                    Some(p) => p,
                    None => {
                        out.truncate(mark);
                        return None;
                    }
                };
                self.run(&E::Star(inner.clone()), input, first, out)
            }
            E::Opt(inner) => {
                let mark = out.len();
                match self.run(inner, input, pos, out) {
                    Some(p) => Some(p),
                    None => {
                        out.truncate(mark);
                        Some(pos)
                    }
                }
            }
            E::Rep(inner, min, max) => {
                let mark0 = out.len();
                let mut p = pos;
                let mut n = 0;
                while n < *max {
                    let mark = out.len();
                    match self.run(inner, input, p, out) {
                        Some(np) => {
                            p = np;
                            n += 1;
                        }
                        None => {
                            out.truncate(mark);
                            break;
                        }
                    }
                }
                if n >= *min {
                    Some(p)
                } else {
                    out.truncate(mark0);
                    None
                }
            }
            E::Not(inner) => {
                let mut scratch = vec![];
                if self.run(inner, input, pos, &mut scratch).is_some() {
                    None
                } else {
                    Some(pos)
                }
            }
            E::R(name) => self.run_rule(self.rule(name), input, pos, out),
        }
    }
}

// small constructors
pub fn seq(v: Vec<E>) -> E {
    E::Seq(v)
}
pub fn alt(v: Vec<E>) -> E {
    E::Alt(v)
}
pub fn star(e: E) -> E {
    E::Star(Box::new(e))
}
pub fn plus(e: E) -> E {
    E::Plus(Box::new(e))
}
pub fn opt(e: E) -> E {
    E::Opt(Box::new(e))
}
pub fn rep(e: E, a: usize, b: usize) -> E {
    E::Rep(Box::new(e), a, b)
}
pub fn not(e: E) -> E {
    E::Not(Box::new(e))
}
pub fn lit(s: &'static str) -> E {
    E::Lit(s)
}
pub fn ilit(s: &'static str) -> E {
    E::ILit(s)
}
pub fn r(s: &'static str) -> E {
    E::R(s)
}
pub fn range(a: char, b: char) -> E {
    E::Range(a, b)
}
