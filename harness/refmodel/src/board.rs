//! REF-BOARD: the MR2DA2 extension board as a plain struct, from property C14's statement.
//! Frozen corners (FROZEN.md): a UOR write drives the three UIO status bits regardless of the
//! direction; the FAN status bit is set by any write to the first output port; the interrupt
//! flip-flop is raised regardless of the IE bit of the control register.

#[derive(Debug, Clone, PartialEq)]
pub struct RBoard {
    pub di1: u8,
    pub do1: u8,
    pub do2: u8,
    pub temp: f32,
    pub ai1: f32,
    pub ai2: f32,
    pub j1: bool,
    pub j2: bool,
    pub uio: [bool; 3],
    pub dir_out: [bool; 3],
    pub comp1: bool,
    pub comp2: bool,
    pub fan: bool,
    /// interrupt control register, 6 bits: IE 0x20, EDGE 0x10, FALLING 0x08, source 0x07
    pub icr: u8,
    pub int_ff: bool,
    pub int_source: bool,
}

pub fn clamp_volt(v: f32) -> f32 {
    if v >= 0.0 && v <= 5.0 {
        v
    } else if v > 5.0 {
        5.0
    } else {
        // negative values and non-numbers
        0.0
    }
}

impl RBoard {
    pub fn new() -> Self {
        RBoard {
            di1: 0, do1: 0, do2: 0, temp: 0.0, ai1: 0.0, ai2: 0.0, j1: false, j2: false, uio: [false; 3], dir_out: [false; 3],
            comp1: false, comp2: false, fan: false, icr: 0, int_ff: false, int_source: false,
        }
    }
    fn source(&self) -> u8 {
        self.icr & 7
    }
    fn falling(&self) -> bool {
        self.icr & 0x08 != 0
    }
    /// A level change of interrupt source `src` from `old` to `new`.
    fn edge(&mut self, src: u8, old: bool, new: bool) {
        if self.source() != src || old == new {
            return;
        }
        let is_falling = old && !new;
        if is_falling == self.falling() {
            self.int_ff = true;
            self.int_source = true;
        }
    }
    /// Comparator 1 follows analog input 1 and DAC 1, comparator 2 the larger of analog input 2 / temperature
    /// and DAC 2; each is re-evaluated by the events on its own inputs (after a master reset, which clears
    /// the DACs without an event, a comparator bit is only judged again from its next event on).
    fn recompute_comp1(&mut self) {
        let c1 = self.ai1 > self.do1 as f32 / 100.0;
        let o1 = self.comp1;
        self.edge(4, o1, c1);
        self.comp1 = c1;
    }
    fn recompute_comp2(&mut self) {
        let bigger = if self.temp > self.ai2 { self.temp } else { self.ai2 };
        let c2 = bigger > self.do2 as f32 / 100.0;
        let o2 = self.comp2;
        self.edge(5, o2, c2);
        self.comp2 = c2;
    }
    // ---- external inputs ----
    pub fn set_di1(&mut self, v: u8) {
        self.di1 = v
    }
    pub fn set_temp(&mut self, v: f32) {
        self.temp = clamp_volt(v);
        self.recompute_comp2();
    }
    pub fn set_ai1(&mut self, v: f32) {
        self.ai1 = clamp_volt(v);
        self.recompute_comp1();
    }
    pub fn set_ai2(&mut self, v: f32) {
        self.ai2 = clamp_volt(v);
        self.recompute_comp2();
    }
    pub fn set_j1(&mut self, v: bool) {
        let old = self.j1;
        self.edge(6, old, v);
        self.j1 = v;
    }
    pub fn set_j2(&mut self, v: bool) {
        self.j2 = v
    }
    pub fn set_uio(&mut self, i: usize, v: bool) {
        if self.dir_out[i] {
            return; // pin is an output: the external level is ignored
        }
        let old = self.uio[i];
        self.edge(1 + i as u8, old, v);
        self.uio[i] = v;
    }
    // ---- port writes ----
    pub fn write(&mut self, addr: u8, b: u8) {
        match addr {
            0xF0 => {
                self.do1 = b;
                self.fan = true;
                self.recompute_comp1();
            }
            0xF1 => {
                self.do2 = b;
                self.recompute_comp2();
            }
            0xF2 => match b >> 6 {
                0 => {
                    self.uio = [b & 1 != 0, b & 2 != 0, b & 4 != 0];
                }
                2 => {
                    self.dir_out = [b & 1 != 0, b & 2 != 0, b & 4 != 0];
                }
                3 => {
                    self.icr = b & 0x3F;
                    self.int_ff = false;
                }
                _ => {}
            },
            0xF3 => self.int_ff = false,
            _ => {}
        }
    }
    // ---- observable registers ----
    pub fn read(&self, addr: u8) -> u8 {
        match addr {
            0xF0 => self.di1,
            0xF1 => {
                (self.j2 as u8) << 7 | (self.j1 as u8) << 6 | (self.fan as u8) << 5 | (self.comp2 as u8) << 4 | (self.comp1 as u8) << 3
                    | (self.uio[2] as u8) << 2 | (self.uio[1] as u8) << 1 | self.uio[0] as u8
            }
            // 255 - 255 * V / 2.55 V with V = DAC1 byte / 100
            0xF2 => 255 - self.do1,
            0xF3 => (self.int_ff as u8) << 1 | self.int_source as u8,
            _ => 0,
        }
    }
    pub fn master_reset(&mut self) {
        self.do1 = 0;
        self.do2 = 0;
        self.icr = 0;
        self.dir_out = [false; 3];
    }
    /// Bit-exact key (f32 by bits) for state deduplication.
    pub fn key(&self) -> [u32; 8] {
        let bools = (self.j1 as u32) | (self.j2 as u32) << 1 | (self.uio[0] as u32) << 2 | (self.uio[1] as u32) << 3 | (self.uio[2] as u32) << 4
            | (self.dir_out[0] as u32) << 5 | (self.dir_out[1] as u32) << 6 | (self.dir_out[2] as u32) << 7 | (self.comp1 as u32) << 8
            | (self.comp2 as u32) << 9 | (self.fan as u32) << 10 | (self.int_ff as u32) << 11 | (self.int_source as u32) << 12;
        [self.di1 as u32, self.do1 as u32, self.do2 as u32, self.temp.to_bits(), self.ai1.to_bits(), self.ai2.to_bits(), bools, self.icr as u32]
    }
}

impl Default for RBoard {
    fn default() -> Self {
        Self::new()
    }
}
