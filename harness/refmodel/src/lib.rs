//! Independent reference models ("boring on purpose"). No dependency on the subject.
pub mod alu;
pub mod asm;
pub mod board;
pub mod bus;
pub mod cmd;
pub mod edit;
pub mod isa;
pub mod mrasm;
pub mod peg;
