//! C13 — no program and no external stimulus can crash the emulator core. Panic monitor over
//! exhaustive program heads, every bus address x value, and a BFS over the stimulus alphabet.
use crate::isa_sweep as sw;
use emulator_2a_lib::machine::{Bus, Machine, MachineConfig, State, StepMode};
use emulator_2a_lib::parser::{Programsize, Stacksize};
use mc::{Ctx, Json};
use std::collections::BTreeMap;

const SIZES: [Stacksize; 5] = crate::c05::SIZES;

/// Hostile tail: pointer chasing into the I/O page, stack at the RAM end, self-modification.
fn tail() -> Vec<u8> {
    vec![
        0xFB, 0xF0, 0x12, // LD R2, 0xF0
        0xFA, 0x10, // MOV R0, (R2+)
        0xF0, 0x1A, // MOV (R2+), R0
        0xFE, 0x11, // MOV R1, ((R2+))
        0xF1, 0x1E, // MOV ((R2+)), R1
        0x10, 0x28, 0x20, // PUSH R0 ; CALL 0x20
        0xF1, 0x40, // LDSP R1
        0x18, 0x1C, 0x17, // PUSHF POPF RET
        0xB4, 0xC9, // MUL DIV
        0x20, 0xE8, // JR back
    ]
}

/// Second hostile tail: arithmetic on pointers, stack walking upwards, jumps backwards into the head.
fn tail_b() -> Vec<u8> {
    vec![
        0x15, 0x14, 0x16, // POP R1 ; POP R0 ; POP R2
        0x2C, // RETI
        0xFE, 0x1E, // MOV ((R2+)), ((R2+))
        0xF5, 0x40, // LDSP (R1)
        0x5E, 0x5A, // DEC ((R2+)) ; DEC (R2+)
        0xFF, 0xFF, 0x1F, 0xFA, // MOV (0xFA), (0xFF)
        0xF2, 0x44, // LDFR R2
        0x28, 0x00, // CALL 0
        0xC6, 0xB9, // DIV R2,R1 ; MUL R1,R2
        0x23, 0xF0, // JNS back
        0x20, 0xE6, // JR back
    ]
}

fn head_machine_v(head: &[u8], stack: Stacksize, prog: Programsize, variant: u8) -> Machine {
    if variant == 0 {
        return head_machine(head, stack, prog);
    }
    let mut m = Machine::new(MachineConfig::default());
    m.raw_mut().set_stacksize(stack);
    m.raw_mut().set_programsize(prog);
    let ram = m.raw_mut().bus_mut().memory_mut();
    for (i, b) in ram.iter_mut().enumerate() {
        *b = (i as u8).wrapping_mul(101) ^ 0xE3;
    }
    sw::place(ram, 0, head);
    sw::place(ram, head.len() as u8, &tail_b());
    {
        let regs = m.raw_mut().registers_mut();
        regs.set(crate::mach::RN[0], 0x00);
        regs.set(crate::mach::RN[1], 0x80);
        regs.set(crate::mach::RN[2], 0x3F);
        regs.set(crate::mach::RN[4], 0x0F);
        regs.set(crate::mach::RN[5], 0x10);
    }
    m.raw_mut().bus_mut().write(0xF9, 0x3F);
    m
}

fn head_machine(head: &[u8], stack: Stacksize, prog: Programsize) -> Machine {
    let mut m = Machine::new(MachineConfig::default());
    m.raw_mut().set_stacksize(stack);
    m.raw_mut().set_programsize(prog);
    let ram = m.raw_mut().bus_mut().memory_mut();
    for (i, b) in ram.iter_mut().enumerate() {
        *b = (i as u8).wrapping_mul(37) ^ 0x5C;
    }
    sw::place(ram, 0, head);
    sw::place(ram, head.len() as u8, &tail());
    {
        let regs = m.raw_mut().registers_mut();
        regs.set(crate::mach::RN[0], 0xEF);
        regs.set(crate::mach::RN[1], 0xFC);
        regs.set(crate::mach::RN[2], 0xF9);
        regs.set(crate::mach::RN[5], 0xEF);
    }
    m
}

fn read_everything(m: &Machine) -> u64 {
    let mut acc = 0u64;
    for a in 0..=255u8 {
        acc = acc.wrapping_mul(31).wrapping_add(m.bus().read(a) as u64);
    }
    let b = m.bus().board();
    acc ^= *b.fan_rpm() as u64;
    acc ^= b.get_fan_period() as u64;
    acc ^= b.dasr().bits() as u64 ^ b.daisr().bits() as u64 ^ b.daicr().bits() as u64;
    acc ^= b.temp().to_bits() as u64 ^ b.analog_inputs()[0].to_bits() as u64 ^ b.analog_outputs()[1].to_bits() as u64;
    acc ^= m.registers().content()[3] as u64;
    acc ^= m.signals().next_microprogram_address() as u64;
    acc ^= m.is_instruction_done() as u64;
    acc ^= m.bus().output_fe() as u64 ^ m.bus().output_ff() as u64;
    acc ^= m.word().bits() as u64;
    // the remaining public read-only API
    acc ^= (m.is_stackpointer_valid() as u64) << 5 ^ (m.is_program_counter_valid() as u64) << 6;
    let rg = m.registers();
    acc ^= (rg.carry_flag() as u64) << 7 ^ (rg.zero_flag() as u64) << 8 ^ (rg.negative_flag() as u64) << 9 ^ (rg.interrupt_enable_flag() as u64) << 10;
    acc ^= (m.bus().is_timer_edge_int_enabled() as u64) << 11 ^ (m.bus().is_key_edge_int_enabled() as u64) << 12;
    acc ^= (m.bus().board().daicr().interrupt_source() as u64) << 13;
    acc ^= (m.state() as u64) << 3;
    acc
}

#[derive(Clone, Copy, Debug, PartialEq)]
pub enum Ev {
    Edge,
    KeyClock,
    Interrupt,
    Continue,
    CpuReset,
    MasterReset,
    Input(u8, u8),
    Di1(u8),
    Temp(f32),
    Ai1(f32),
    Ai2(f32),
    J1(bool),
    J2(bool),
    Uio(u8, bool),
    ToggleStep,
    LoadRaw(u8),
    ResetRam,
}

fn stimuli() -> Vec<Ev> {
    let mut v = vec![Ev::Edge, Ev::KeyClock, Ev::Interrupt, Ev::Continue, Ev::CpuReset, Ev::MasterReset, Ev::ToggleStep, Ev::LoadRaw(0), Ev::LoadRaw(240), Ev::ResetRam];
    for i in 0..4 {
        v.push(Ev::Input(i, 0x00));
        v.push(Ev::Input(i, 0xFF));
    }
    v.push(Ev::Di1(0xFF));
    for x in [0.0f32, 5.0, -1.0, 1e30, f32::INFINITY, f32::NEG_INFINITY, f32::NAN, f32::MIN_POSITIVE / 2.0] {
        v.push(Ev::Temp(x));
        v.push(Ev::Ai1(x));
        v.push(Ev::Ai2(x));
    }
    for b in [true, false] {
        v.push(Ev::J1(b));
        v.push(Ev::J2(b));
        for i in 0..3 {
            v.push(Ev::Uio(i, b));
        }
    }
    v
}

fn apply(m: &mut Machine, e: Ev) {
    match e {
        Ev::Edge => m.raw_mut().trigger_clock_edge(),
        Ev::KeyClock => {
            // an assembly step on an undefined opcode never returns (C11's known finding): bound it here
            if m.step_mode() == StepMode::Assembly {
                let mut n = 0;
                while m.is_instruction_done() && m.state() == State::Running && n < 700 {
                    m.raw_mut().trigger_clock_edge();
                    n += 1;
                }
                while !m.is_instruction_done() && m.state() == State::Running && n < 700 {
                    m.raw_mut().trigger_clock_edge();
                    n += 1;
                }
            } else {
                m.trigger_key_clock()
            }
        }
        Ev::Interrupt => m.trigger_key_interrupt(),
        Ev::Continue => m.trigger_key_continue(),
        Ev::CpuReset => m.cpu_reset(),
        Ev::MasterReset => m.master_reset(),
        Ev::Input(i, v) => match i {
            0 => m.set_input_fc(v),
            1 => m.set_input_fd(v),
            2 => m.set_input_fe(v),
            _ => m.set_input_ff(v),
        },
        Ev::Di1(v) => m.set_digital_input1(v),
        Ev::Temp(v) => m.set_temp(v),
        Ev::Ai1(v) => m.set_analog_input1(v),
        Ev::Ai2(v) => m.set_analog_input2(v),
        Ev::J1(v) => m.set_jumper1(v),
        Ev::J2(v) => m.set_jumper2(v),
        Ev::Uio(i, v) => match i {
            0 => m.set_universal_input_output1(v),
            1 => m.set_universal_input_output2(v),
            _ => m.set_universal_input_output3(v),
        },
        Ev::ToggleStep => {
            let n = if m.step_mode() == StepMode::Real { StepMode::Assembly } else { StepMode::Real };
            m.set_step_mode(n)
        }
        Ev::LoadRaw(n) => {
            let bytes: Vec<u8> = (0..n as usize).map(|i| (i as u8).wrapping_mul(29) ^ 0xF1).collect();
            #[allow(deprecated)]
            m.load_raw(bytes.iter());
        }
        Ev::ResetRam => m.raw_mut().bus_mut().reset_ram(),
    }
}

type Bad = BTreeMap<String, (u64, Vec<(String, String)>)>;

fn note(bad: &mut Bad, p: &mc::PanicInfo, line: String, ctxt: String) {
    let e = bad.entry(format!("panic/{}:{}", p.file(), crate::c02::panic_class(&p.msg))).or_default();
    e.0 += 1;
    if e.1.len() < 4 {
        e.1.push((line, format!("{}: panic at {}: {}", ctxt, p.site(), p.msg)));
    }
}

fn heads(bytes: usize, sizes: &[Stacksize], limits: &[Programsize], edges: u32, variant: u8) -> (u64, u64, [u64; 3], Bad) {
    let n = 1usize << (8 * bytes);
    let res = mc::par_ranges(n, 1024, |rg| {
        let mut bad = Bad::new();
        let mut runs = 0u64;
        let mut total_edges = 0u64;
        let mut ends = [0u64; 3];
        for i in rg {
            let head: Vec<u8> = (0..bytes).map(|k| (i >> (8 * (bytes - 1 - k))) as u8).collect();
            for &s in sizes {
                for &l in limits {
                    runs += 1;
                    let r = mc::catch(|| {
                        let mut m = head_machine_v(&head, s, l, variant);
                        let mut e = 0;
                        while e < edges && m.state() == State::Running {
                            m.raw_mut().trigger_clock_edge();
                            e += 1;
                        }
                        let _ = read_everything(&m);
                        m.raw_mut().trigger_clock_edge();
                        (e, m.state())
                    });
                    match r {
                        Ok((e, st)) => {
                            total_edges += e as u64;
                            ends[st as usize] += 1;
                        }
                        Err(p) => note(&mut bad, &p, format!("head bytes={} stack={:?} limit={:?} edges={} variant={}", mc::hex(&head), s, l, edges, variant), "running a program head".into()),
                    }
                }
            }
        }
        (runs, total_edges, ends, bad)
    });
    let mut runs = 0;
    let mut te = 0;
    let mut ends = [0u64; 3];
    let mut bad = Bad::new();
    for (r, e, en, b) in res {
        runs += r;
        te += e;
        for i in 0..3 {
            ends[i] += en[i];
        }
        for (k, (c, cases)) in b {
            let x = bad.entry(k).or_default();
            x.0 += c;
            for cs in cases {
                if x.1.len() < 4 {
                    x.1.push(cs);
                }
            }
        }
    }
    (runs, te, ends, bad)
}

fn board_configs() -> Vec<Vec<Ev>> {
    vec![
        vec![],
        vec![Ev::Temp(f32::NAN), Ev::Ai1(f32::INFINITY), Ev::Ai2(-1.0)],
        vec![Ev::Temp(5.0), Ev::Ai1(2.55), Ev::Ai2(2.56), Ev::J1(true), Ev::J2(true)],
        vec![Ev::Uio(0, true), Ev::Uio(1, true), Ev::Uio(2, true), Ev::Di1(0xFF)],
        vec![Ev::Input(0, 0xFF), Ev::Input(1, 0xFF), Ev::Input(2, 0xFF), Ev::Input(3, 0xFF)],
        vec![Ev::Ai1(1e30), Ev::Temp(f32::MIN_POSITIVE / 2.0)],
    ]
}

/// (b) every bus address x every value, through instructions and through direct bus calls.
fn addresses() -> (u64, Bad) {
    let cfgs = board_configs();
    let pre_writes: [&[(u8, u8)]; 2] = [&[], &[(0xF2, 0x87), (0xF2, 0xCC), (0xF0, 0xFF), (0xF1, 0x01), (0xF9, 0x3F), (0xFD, 0x9F), (0xFC, 0xFF), (0xFD, 0x7F)]];
    let res = mc::par_ranges(256, 64, |rg| {
        let mut bad = Bad::new();
        let mut n = 0u64;
        for a in rg {
            let a = a as u8;
            for (ci, cfg) in cfgs.iter().enumerate() {
                for (wi, pre) in pre_writes.iter().enumerate() {
                    for v in 0..=255u8 {
                        n += 2;
                        // through the machine: MOV (a), v ; LD R0, (a) ; BITS (a), v ; DEC (a)
                        let r = mc::catch(|| {
                            let mut m = Machine::new(MachineConfig::default());
                            m.raw_mut().set_stacksize(Stacksize::_0);
                            m.raw_mut().set_programsize(Programsize::Size(255));
                            for e in cfg {
                                apply(&mut m, *e);
                            }
                            for (pa, pv) in pre.iter() {
                                m.raw_mut().bus_mut().write(*pa, *pv);
                            }
                            let code = [0xFB, v, 0x1F, a, 0xFF, a, 0x10, 0xFB, v, 0x5F, a, 0x5F, a, 0xF3 | 0x0C, a, 0x2F, a, 0x20, 0xFE];
                            sw::place(m.raw_mut().bus_mut().memory_mut(), 0x10, &code);
                            m.raw_mut().registers_mut().set(crate::mach::RN[3], 0x10);
                            m.raw_mut().registers_mut().set(crate::mach::RN[5], 0x80);
                            for _ in 0..140 {
                                m.raw_mut().trigger_clock_edge();
                            }
                            read_everything(&m)
                        });
                        if let Err(p) = r {
                            note(&mut bad, &p, format!("addr a={:#04x} v={:#04x} cfg={} pre={}", a, v, ci, wi), "instructions touching a bus address".into());
                        }
                        // direct bus calls
                        let r = mc::catch(|| {
                            let mut b = Bus::new();
                            for (pa, pv) in pre.iter() {
                                b.write(*pa, *pv);
                            }
                            b.write(a, v);
                            let x = b.read(a);
                            b.write(a, x.wrapping_add(1));
                            b.cpu_reset();
                            b.write(a, v);
                            b.master_reset();
                            b.read(a)
                        });
                        if let Err(p) = r {
                            note(&mut bad, &p, format!("addr a={:#04x} v={:#04x} cfg={} pre={} direct", a, v, ci, wi), "direct bus call".into());
                        }
                    }
                }
            }
        }
        (n, bad)
    });
    let mut n = 0;
    let mut bad = Bad::new();
    for (c, b) in res {
        n += c;
        for (k, (cn, cases)) in b {
            let x = bad.entry(k).or_default();
            x.0 += cn;
            for cs in cases {
                if x.1.len() < 4 {
                    x.1.push(cs);
                }
            }
        }
    }
    (n, bad)
}

/// (c) BFS over the stimulus alphabet from several program states (no dedup needed at this depth:
/// the point is the panic monitor on every transition; states are counted by digest).
fn stimulus_bfs(depth: usize) -> (u64, u64, Bad) {
    let ev = stimuli();
    // start states: a few heads, run 0 / 30 / to halt
    let mut starts: Vec<(String, Machine)> = vec![];
    for (name, head, s, l, run) in [
        ("fresh", vec![0x02u8], Stacksize::_16, Programsize::Auto, 0u32),
        ("mid-instruction", vec![0xC9, 0xB4], Stacksize::_0, Programsize::Size(255), 23),
        ("stopped", vec![0x01], Stacksize::_16, Programsize::Size(200), 20),
        ("error-stopped", vec![0x00], Stacksize::_16, Programsize::Size(200), 20),
        ("undefined-opcode", vec![0x4C], Stacksize::_32, Programsize::Size(255), 40),
        ("io-pointer", vec![0xFB, 0xF2, 0x12], Stacksize::_64, Programsize::Size(255), 90),
        ("sp-at-edge", vec![0xFB, 0xEF, 0x40, 0x14], Stacksize::_48, Programsize::Size(255), 60),
        ("pc-at-end", vec![0xFB, 0xEE, 0x13], Stacksize::_0, Programsize::Size(255), 70),
    ] {
        match mc::catch(|| {
            let mut m = head_machine(&head, s, l);
            for _ in 0..run {
                m.raw_mut().trigger_clock_edge();
            }
            m
        }) {
            Ok(m) => starts.push((name.to_string(), m)),
            Err(p) => {
                let mut b = Bad::new();
                note(&mut b, &p, format!("head bytes={} stack={:?} limit={:?} edges={}", mc::hex(&head), s, l, run), format!("building the start state '{}'", name));
                return (0, 0, b);
            }
        }
    }
    let total = ev.len().pow(depth as u32);
    // only cloned inside the workers
    let starts = mc::Shared(starts);
    let starts = &starts;
    let res = mc::par_ranges(total * starts.get().len(), 2048, |rg| {
        let starts = starts.get();
        let mut bad = Bad::new();
        let mut trans = 0u64;
        let mut digests = std::collections::HashSet::new();
        for idx in rg {
            let (si, mut code) = (idx / total, idx % total);
            let mut seq = vec![];
            for _ in 0..depth {
                seq.push(ev[code % ev.len()]);
                code /= ev.len();
            }
            if idx % 64 == 0 {
                mc::watch::progress(|| format!("stim start={} seq={:?} (one of the 64 sequences from index {})", starts[si].0, seq, idx).replace(' ', ""));
            }
            let r = mc::catch(|| {
                let mut m = starts[si].1.clone();
                let mut d = 0u64;
                for e in &seq {
                    apply(&mut m, *e);
                    d = d.wrapping_mul(1099511628211).wrapping_add(read_everything(&m));
                    m.raw_mut().trigger_clock_edge();
                }
                d
            });
            trans += depth as u64;
            match r {
                Ok(d) => {
                    digests.insert(d);
                }
                Err(p) => note(&mut bad, &p, format!("stim start={} seq={:?}", starts[si].0, seq).replace(' ', ""), format!("stimulus sequence from state '{}'", starts[si].0)),
            }
        }
        mc::watch::idle();
        (trans, digests.len() as u64, bad)
    });
    let mut trans = 0;
    let mut states = 0;
    let mut bad = Bad::new();
    for (t, s, b) in res {
        trans += t;
        states += s;
        for (k, (cn, cases)) in b {
            let x = bad.entry(k).or_default();
            x.0 += cn;
            for cs in cases {
                if x.1.len() < 4 {
                    x.1.push(cs);
                }
            }
        }
    }
    (trans, states, bad)
}

/// Programs for (d): the interrupt-using programs of C04 (one body element each, three routines) and
/// hostile ones written in bytes (vector at 0, routine at 2).
fn phase_programs() -> Vec<(String, [u8; 240])> {
    let mut v = crate::c04::images_for_phase_sweep();
    let mk = |name: &str, isr: &[u8], main: &[u8]| -> (String, [u8; 240]) {
        let mut ram = [0u8; 240];
        for (i, b) in ram.iter_mut().enumerate() {
            *b = (i as u8).wrapping_mul(37) ^ 0x5C;
        }
        sw::place(&mut ram, 0, &[0x20, 0x0E]); // JR 0x10
        sw::place(&mut ram, 2, isr);
        // LDSP 0xEF ; BITS (0xF9),1 ; EI ; main...
        let mut m = vec![0xFB, 0xEF, 0x40, 0xFB, 0x01, 0x5F, 0xF9, 0x08];
        m.extend_from_slice(main);
        sw::place(&mut ram, 0x10, &m);
        (format!("hostile:{}", name), ram)
    };
    // main code starts at 0x18
    v.push(mk("reti-loop", &[0x2C], &[0x18, 0xFB, 0x1F, 0x10, 0x10, 0x2C, 0x02, 0x20, 0xF7])); // L: PUSHF ; LD R0,0x1F ; PUSH R0 ; RETI ; NOP ; JR L
    v.push(mk("bare-reti-loop", &[0x2C], &[0x2C, 0x20, 0xFD])); // RETI ; JR -3 (pops garbage)
    v.push(mk("isr-enables-itself", &[0x08, 0x02, 0x2C], &[0x02, 0x20, 0xFD])); // EI ; NOP ; RETI | NOP ; JR
    v.push(mk("isr-never-returns", &[0x08, 0x20, 0xFD], &[0x02, 0x20, 0xFD]));
    v.push(mk("ei-di-toggle", &[0x2C], &[0x08, 0x0C, 0x20, 0xFC]));
    v.push(mk("isr-clears-enable", &[0xFB, 0x01, 0x6F, 0xF9, 0x2C], &[0x02, 0x20, 0xFD])); // BITC (0xF9),1 ; RETI
    v.push(mk("isr-writes-misr", &[0xFB, 0xFF, 0x1F, 0xFA, 0xFB, 0x00, 0x1F, 0xFA, 0x2C], &[0x02, 0x20, 0xFD]));
    v.push(mk("stop-with-ie", &[0x2C], &[0x02, 0x01, 0x20, 0xFC]));
    v.push(mk("ret-instead-of-reti", &[0x17], &[0x02, 0x20, 0xFD]));
    v.push(mk("reti-into-vector", &[0x2C], &[0xFB, 0x00, 0x10, 0x18, 0x10, 0x2C])); // LD R0,0 ; PUSHF ; PUSH R0 ; RETI -> PC 0
    v.push(mk("mul-div-loop", &[0x10, 0xB4, 0x14, 0x2C], &[0xB4, 0xC9, 0x20, 0xFC]));
    v
}

/// (d) Every stimulus before every clock edge of interrupt-using programs (phase x stimulus), and every
/// ordered pair of key presses in a window; all getters read on the 12 edges after the stimulus and
/// at the end. Oracle: no panic.
fn phase_sweep(quick: bool) -> (u64, u64, u64, Bad) {
    let progs = phase_programs();
    let ev: Vec<Ev> = stimuli().into_iter().filter(|e| !matches!(e, Ev::Edge)).collect();
    let horizon: u32 = 230;
    let after: u32 = if quick { 90 } else { 200 };
    let start = |ram: &[u8; 240]| -> Machine {
        let mut m = Machine::new(MachineConfig::default());
        m.raw_mut().set_stacksize(Stacksize::_16);
        m.raw_mut().set_programsize(Programsize::Size(255));
        *m.raw_mut().bus_mut().memory_mut() = *ram;
        m
    };
    let res = mc::par_ranges(progs.len(), 1, |rg| {
        let mut bad = Bad::new();
        let mut runs = 0u64;
        let mut edges = 0u64;
        let mut digests = std::collections::HashSet::new();
        for pi in rg {
            let (name, ram) = &progs[pi];
            // machines at every phase (prefix of the undisturbed run)
            let mut at: Vec<Machine> = vec![];
            let built = mc::catch(|| {
                let mut v = vec![];
                let mut m = start(ram);
                for _ in 0..horizon {
                    v.push(m.clone());
                    m.raw_mut().trigger_clock_edge();
                }
                v
            });
            match built {
                Ok(v) => at = v,
                Err(p) => note(&mut bad, &p, format!("phase prog={} t=- ev=-", pi), format!("undisturbed run of {}", name)),
            }
            let mut one = |line: String, m0: &Machine, evs: &[(u32, Ev)], bad: &mut Bad| {
                mc::watch::progress(|| line.clone());
                let r = mc::catch(|| {
                    let mut m = m0.clone();
                    let mut d = 0u64;
                    let last = evs.last().map(|x| x.0).unwrap_or(0);
                    let mut k = 0;
                    let mut n = 0u64;
                    for t in 0..=last + after {
                        while k < evs.len() && evs[k].0 == t {
                            apply(&mut m, evs[k].1);
                            k += 1;
                        }
                        if t + 12 >= last && t <= last + 12 {
                            d = d.wrapping_mul(1099511628211).wrapping_add(read_everything(&m));
                        }
                        m.raw_mut().trigger_clock_edge();
                        n += 1;
                    }
                    d = d.wrapping_mul(1099511628211).wrapping_add(read_everything(&m));
                    let _ = format!("{:?}", m);
                    (d, n)
                });
                match r {
                    Ok((d, n)) => Some((d, n)),
                    Err(p) => {
                        note(bad, &p, line, format!("stimulus at a phase of {}", name));
                        None
                    }
                }
            };
            for (t, m0) in at.iter().enumerate() {
                for e in &ev {
                    // quick: the CPU-side stimuli at every phase, board/input stimuli at every 4th
                    let cpu_side = matches!(e, Ev::KeyClock | Ev::Interrupt | Ev::Continue | Ev::CpuReset | Ev::MasterReset | Ev::ToggleStep | Ev::LoadRaw(_) | Ev::ResetRam);
                    if quick && !cpu_side && t % 4 != 0 {
                        continue;
                    }
                    runs += 1;
                    if let Some((d, n)) = one(format!("phase prog={} t={} ev={:?}", pi, t, e).replace(' ', ""), m0, &[(0, *e)], &mut bad) {
                        digests.insert(d);
                        edges += n;
                    }
                }
            }
            // pairs of key presses: t1 in the window, t2 - t1 in 0..=w
            let (w0, w1, gap) = if quick { (20usize, 120usize, 40u32) } else { (0usize, 200usize, 80u32) };
            for t1 in w0..w1.min(at.len()) {
                for dt in 0..=gap {
                    runs += 1;
                    if let Some((d, n)) = one(format!("phase prog={} t={} ev=Interrupt,+{},Interrupt", pi, t1, dt), &at[t1], &[(0, Ev::Interrupt), (dt, Ev::Interrupt)], &mut bad) {
                        digests.insert(d);
                        edges += n;
                    }
                }
            }
        }
        mc::watch::idle();
        (runs, edges, digests.len() as u64, bad)
    });
    let mut out = (0, 0, 0, Bad::new());
    for (r, e, d, b) in res {
        out.0 += r;
        out.1 += e;
        out.2 += d;
        for (k, (cn, cases)) in b {
            let x = out.3.entry(k).or_default();
            x.0 += cn;
            for cs in cases {
                if x.1.len() < 4 {
                    x.1.push(cs);
                }
            }
        }
    }
    out
}

/// (f) Long lives: every phase program and a set of program heads clocked for 70 000 edges while the
/// whole stimulus list is applied over and over (one stimulus every 97 edges, walked with a stride per
/// program); all getters read every 500 edges. Counters that wrap after 2^8 / 2^16 steps get their turn.
fn long_lives() -> (u64, u64, Bad) {
    let mut machines: Vec<(String, Machine)> = vec![];
    for (name, ram) in phase_programs() {
        let mut m = Machine::new(MachineConfig::default());
        m.raw_mut().set_stacksize(Stacksize::_16);
        m.raw_mut().set_programsize(Programsize::Size(255));
        *m.raw_mut().bus_mut().memory_mut() = ram;
        machines.push((name, m));
    }
    for h in [[0x02u8, 0x02], [0xB4, 0xC9], [0x10, 0x28], [0xFB, 0xFF], [0x2C, 0x08], [0xF0, 0x1A], [0x4C, 0x00], [0x01, 0x00]] {
        for v in 0..2u8 {
            machines.push((format!("head {:02x?} variant {}", h, v), head_machine_v(&h, SIZES[(h[0] % 5) as usize], Programsize::Size(255), v)));
        }
    }
    let ev: Vec<Ev> = stimuli().into_iter().filter(|e| !matches!(e, Ev::Edge)).collect();
    let machines = mc::Shared(machines);
    let mref = &machines;
    let res = mc::par_ranges(mref.get().len(), mref.get().len(), |rg| {
        let machines = mref.get();
        let mut bad = Bad::new();
        let mut runs = 0u64;
        let mut edges = 0u64;
        for i in rg {
            runs += 1;
            let (name, m0) = &machines[i];
            let stride = 2 * (i % 20) + 1;
            let line = format!("long name={} stride={}", name.replace(' ', "_"), stride);
            let r = mc::catch(|| {
                let mut m = m0.clone();
                let mut k = 0usize;
                let mut d = 0u64;
                for e in 0..70_000u32 {
                    if e % 97 == 0 {
                        mc::watch::progress(|| format!("{} edge={}", line, e));
                        let s = ev[(k * stride + i) % ev.len()];
                        k += 1;
                        apply(&mut m, s);
                    }
                    if e % 500 == 0 {
                        d ^= read_everything(&m);
                    }
                    m.raw_mut().trigger_clock_edge();
                }
                d ^ read_everything(&m)
            });
            edges += 70_000;
            if let Err(p) = r {
                note(&mut bad, &p, line, format!("long life of {}", name));
            }
        }
        mc::watch::idle();
        (runs, edges, bad)
    });
    let mut out = (0, 0, Bad::new());
    for (r, e, b) in res {
        out.0 += r;
        out.1 += e;
        for (k, (cn, cases)) in b {
            let x = out.2.entry(k).or_default();
            x.0 += cn;
            for cs in cases {
                if x.1.len() < 4 {
                    x.1.push(cs);
                }
            }
        }
    }
    out
}

pub fn run() {
    let mut ctx = Ctx::from_args("exploration");
    if let Some(f) = ctx.replay_file.clone() {
        let text = std::fs::read_to_string(&f).expect("replay file");
        let l = text.lines().next().unwrap_or("");
        // replays run with the subject's log lines evaluated (a superset of what the families do)
        log::set_max_level(log::LevelFilter::Trace);
        if l.starts_with("head ") {
            let kv = mc::kv(l);
            let head = mc::unhex(&kv["bytes"].replace(',', " "));
            let edges = mc::num(&kv["edges"]) as u32;
            let variant = kv.get("variant").map(|v| mc::num(v) as u8).unwrap_or(0);
            for &s in &SIZES {
                let r = mc::catch(|| {
                    let mut m = head_machine_v(&head, s, Programsize::Size(255), variant);
                    for _ in 0..edges {
                        m.raw_mut().trigger_clock_edge();
                    }
                    read_everything(&m)
                });
                println!("head {:02x?} stack {:?}: {:?}", head, s, r.as_ref().map(|_| "no panic").map_err(|p| format!("{} at {}", p.msg, p.site())));
                if let Err(p) = r {
                    ctx.violation(format!("panic/{}:{}", p.file(), crate::c02::panic_class(&p.msg)), p.msg, text.clone());
                    break;
                }
            }
        } else if l.starts_with("phase ") {
            let kv = mc::kv(l);
            let progs = phase_programs();
            let (pi, t) = (mc::num(&kv["prog"]) as usize, mc::num(&kv["t"]) as u32);
            let evs: Vec<(u32, Ev)> = if let Some(rest) = kv["ev"].strip_prefix("Interrupt,+") {
                let dt: u32 = rest.split(',').next().unwrap().parse().unwrap();
                vec![(t, Ev::Interrupt), (t + dt, Ev::Interrupt)]
            } else {
                stimuli().into_iter().filter(|e| format!("{:?}", e).replace(' ', "") == kv["ev"]).map(|e| (t, e)).collect()
            };
            println!("program {}: events {:?}", progs[pi].0, evs);
            let r = mc::catch(|| {
                let mut m = Machine::new(MachineConfig::default());
                m.raw_mut().set_stacksize(Stacksize::_16);
                m.raw_mut().set_programsize(Programsize::Size(255));
                *m.raw_mut().bus_mut().memory_mut() = progs[pi].1;
                let last = evs.last().map(|x| x.0).unwrap_or(0);
                for e in 0..=last + 200 {
                    for (te, ev) in &evs {
                        if *te == e {
                            apply(&mut m, *ev);
                        }
                    }
                    read_everything(&m);
                    m.raw_mut().trigger_clock_edge();
                }
                let _ = format!("{:?}", m);
            });
            println!("{:?}", r.as_ref().map(|_| "no panic").map_err(|p| format!("{} at {}", p.msg, p.site())));
            if let Err(p) = r {
                ctx.violation(format!("panic/{}:{}", p.file(), crate::c02::panic_class(&p.msg)), p.msg, text.clone());
            }
        } else {
            println!("replay of this case kind: re-run the check (seconds); line was: {}", l);
        }
        ctx.finish();
    }
    let quick = ctx.quick();
    let mut bad = Bad::new();
    let merge = |bad: &mut Bad, b: Bad| {
        for (k, (cn, cases)) in b {
            let x = bad.entry(k).or_default();
            x.0 += cn;
            for cs in cases {
                if x.1.len() < 4 {
                    x.1.push(cs);
                }
            }
        }
    };
    // (a)
    let limits_all = [Programsize::Size(255), Programsize::Size(3), Programsize::Auto];
    let (mut r2, mut e2, mut ends2, b2) = heads(2, &SIZES, &limits_all, 300, 0);
    merge(&mut bad, b2);
    // second register preset / RAM pattern / tail, every interrupt source enabled and IE set
    let (r2b, e2b, ends2b, b2b) = heads(2, &SIZES, if quick { &limits_all[..1] } else { &limits_all }, 300, 1);
    merge(&mut bad, b2b);
    r2 += r2b;
    e2 += e2b;
    for i in 0..3 {
        ends2[i] += ends2b[i];
    }
    let (r3, e3, ends3, b3) = if quick { (0, 0, [0; 3], Bad::new()) } else { heads(3, &SIZES, &[Programsize::Size(255)], 200, 0) };
    merge(&mut bad, b3);
    // (b)
    let (nb, bb) = addresses();
    merge(&mut bad, bb);
    // (c)
    let (trans, states, bc) = stimulus_bfs(if quick { 3 } else { 4 });
    merge(&mut bad, bc);
    // (d)
    let (pruns, pedges, pdig, bd) = phase_sweep(quick);
    merge(&mut bad, bd);
    // (f)
    let (long_runs, long_edges, lbad) = long_lives();
    merge(&mut bad, lbad);
    ctx.set("long_life_runs", long_runs);
    ctx.set("long_life_edges", long_edges);
    // (e) the same calls with every log line of the subject evaluated and formatted (what happens under
    // `2a-emulator -vvvv`): the address x value family in full, every 2-byte head with a coarser grid of
    // settings, the stimulus sequences one level shallower
    let (lruns, lb) = crate::with_trace_logging(|| {
        let mut b = Bad::new();
        let (n1, b1) = addresses();
        merge(&mut b, b1);
        let (r, _e, _ends, b2) = heads(2, &SIZES[1..2], &limits_all[..1], 120, 0);
        merge(&mut b, b2);
        let (r1, _e, _ends, b3) = heads(2, &SIZES[0..1], &limits_all[1..2], 60, 1);
        merge(&mut b, b3);
        let (t, _s, b4) = stimulus_bfs(2);
        merge(&mut b, b4);
        (n1 + r + r1 + t, b)
    });
    // report them under keys of their own
    for (k, v) in lb {
        bad.insert(format!("{}/with-logging", k), v);
    }
    ctx.set("runs_with_trace_logging", lruns);
    for (k, (n, cases)) in &bad {
        for (l, w) in cases.iter().take(3) {
            ctx.violation(k.clone(), format!("{} ({} cases in class)", w, n), l.clone());
        }
    }
    ctx.set("evaluations", r2 + r3 + nb + trans + pruns);
    ctx.set("distinct_nontrivial", states + pdig + ends2[0] + ends2[1] + ends3[0] + ends3[1]);
    ctx.set("phase_sweep", format!("{} programs (75 of C04's interrupt programs + 11 hostile ones) x every clock edge 0..230 x {} stimuli + ordered pairs of key presses in a window: {} runs, {} edges, {} distinct observation digests", phase_programs().len(), stimuli().len() - 1, pruns, pedges, pdig));
    ctx.set("rule", "(a) every 2-byte program head (thorough: also every 3-byte head) followed by a hostile tail (two tails / register presets / RAM patterns, the second with every interrupt source enabled), x 5 stack sizes x 3 program-size limits, clocked to a halt or the edge bound, then all getters read and one more edge; (b) every bus address x every value through a 7-instruction program and through direct Bus calls, after 6 board configurations x 2 register presets; (c) every stimulus sequence to the depth from 8 program states, all getters read and one edge after each event; (d) every stimulus before every clock edge of interrupt-using and hostile programs, and pairs of key presses, getters read on the edges around the stimulus, Debug formatted at the end. Oracle: no panic. distinct_nontrivial = distinct stimulus-sequence observation digests + runs that ended in a halt");
    ctx.set("exhaustive", true);
    ctx.set("bounds", format!("2-byte heads: {} runs / {} edges; 3-byte heads: {} runs / {} edges; address x value cases: {}; stimulus sequences depth {} over {} events from 8 states: {} transitions", r2, e2, r3, e3, nb, if quick { 3 } else { 4 }, stimuli().len(), trans));
    ctx.set("head_runs_ending", Json::Arr(vec![Json::Str(format!("2-byte: Stopped={} ErrorStopped={} Running={}", ends2[0], ends2[1], ends2[2])), Json::Str(format!("3-byte: Stopped={} ErrorStopped={} Running={}", ends3[0], ends3[1], ends3[2]))]));
    ctx.set("edges_clocked", e2 + e3 + pedges);
    ctx.set("distinct_outcomes", states);
    ctx.sample(format!("head bytes=f1,40 stack=_16 tail={}", mc::hex(&tail())));
    ctx.sample(format!("stimuli: {:?}", &stimuli()[..12]));
    ctx.set(
        "determinism_selftest",
        mc::catch(|| {
            let a = head_machine(&[0xB4, 0x17], Stacksize::_16, Programsize::Size(255));
            let mut x = a.clone();
            let mut y = a.clone();
            for _ in 0..100 {
                x.raw_mut().trigger_clock_edge();
                y.raw_mut().trigger_clock_edge();
            }
            x == y
        })
        .unwrap_or(false),
    );
    ctx.assume("Stacksize::NotSet is not one of the five sizes and is never installed by Machine::load; an assembly-mode key clock is bounded here because its non-termination on undefined opcodes is C11's known finding");
    ctx.finish();
}
