//! C07 — CPU reset, master reset and program load restore exactly the documented state.
//! BFS over histories; at every node each kind of reset and every follow-up program is tried on a
//! clone and compared with power-on values / an untouched twin / a fresh machine.
use emulator_2a_lib::compiler::{ByteCode, Translator};
use emulator_2a_lib::machine::{Machine, MachineConfig, State, StepMode};
use emulator_2a_lib::parser::{AsmParser, Programsize, Stacksize};
use mc::{Ctx, Json};
use std::collections::BTreeMap;

const P1: &str = "#! mrasm\n LDSP 0xEF\n LD R0, 0x5A\n ST (0x80), R0\n ST (0xFE), R0\n ST (0xFF), R0\n ST (0xF0), R0\n LD R1, 0x21\n ST (0xF1), R1\n LD R1, 0x87\n ST (0xF2), R1\n LD R1, 0x05\n ST (0xF2), R1\n LD R1, 0xE6\n ST (0xF2), R1\n LD R1, 0x3F\n ST (0xF9), R1\n ST (0xFC), R0\n LD R1, 0x9B\n ST (0xFD), R1\n ST (0xFB), R0\n EI\nLOOP:\n INC R2\n PUSH R2\n JR LOOP\n";
const P2: &str = "#! mrasm\n*STACKSIZE 48\n*PROGRAMSIZE 200\n JR MAIN\n PUSH R0\n LD R0, (0x90)\n INC R0\n ST (0x90), R0\n POP R0\n RETI\nMAIN:\n LDSP 0xE0\n BITS (0xF9), 1\n EI\n LD R0, 0x33\n ST (0xFF), R0\n ST (0xF1), R0\n LD R1, 0xC6\n ST (0xF2), R1\n ST (0xA0), R1\n STOP\n LD R2, 0x77\n ST (0xFE), R2\nEND:\n JR END\n";
/// no interrupts, no writes to registers without read-back (UART, timer)
const P3: &str = "#! mrasm\n*STACKSIZE 0\n LDSP 0x70\n LD R0, 0xC3\n ST (0x10), R0\n ST (0xFE), R0\n ST (0xF0), R0\n LD R1, 0x82\n ST (0xF2), R1\n MUL R0, R1\n PUSH R0\n CALL SUB\nL:\n DEC R2\n JR L\nSUB:\n ST (0xFF), R2\n RET\n";

/// leaves the limits alone (NOSET): the next load must still wipe the RAM and apply its own limits
const P4: &str = "#! mrasm\n*PROGRAMSIZE NOSET\n*STACKSIZE NOSET\n LD R0, 0x99\n ST (0x60), R0\n ST (0xFE), R0\n .ORG 0x50\n .DB 1, 2, 3, 4\nL:\n JR L\n";

const FOLLOW: [&str; 11] = [
    "#! mrasm\nL:\n LD R0, (0xFC)\n LD R1, (0xFD)\n ADD R0, R1\n ST (0xFF), R0\n INC R2\n ST (0xFE), R2\n JR L\n",
    "#! mrasm\nF:\n PUSH R0\n CALL F\n",
    "#! mrasm\n*STACKSIZE 0\n LDSP 0xEF\n LD R0, 13\n LD R1, 11\nL:\n MUL R0, R1\n ST (0x80), R0\n DIV R0, R1\n PUSHF\n POP R2\n ST (0x81), R2\n INC R1\n JR L\n",
    "#! mrasm\n*STACKSIZE 32\n*PROGRAMSIZE 6\n LDSP 0xD0\n NOP\n NOP\n NOP\n NOP\n NOP\n NOP\n",
    "#! mrasm\n LD R0, 1\n ST (0xFF), R0\n STOP\n LD R0, 2\n ST (0xFF), R0\nE:\n JR E\n",
    "#! mrasm\n*STACKSIZE 0\n LD R0, 0x44\n ST (PATCH), R0\nPATCH:\n NOP\n ST (0xFE), R2\n LD R1, (0xFE)\n LD R3, 0\n",
    // interrupts enabled by the CPU flag alone: nothing may be pending from an earlier life
    "#! mrasm\n JR M\n INC R1\n ST (0xFE), R1\n RETI\nM:\n LDSP 0xEF\n EI\nL:\n INC R0\n ST (0xFF), R0\n JR L\n",
    // limits left alone
    "#! mrasm\n*PROGRAMSIZE NOSET\n*STACKSIZE NOSET\n LD R0, 3\n ST (0xFF), R0\n JR T\n .ORG 0x40\nT:\n STOP\nL:\n JR L\n",
    // images without a single byte: comment only; directives only; NOSET only
    "#! mrasm\n; nothing at all\n",
    "#! mrasm\n*STACKSIZE 48\n*PROGRAMSIZE 20\n",
    "#! mrasm\n*PROGRAMSIZE NOSET\n",
];

fn compile(src: &str) -> ByteCode {
    Translator::compile(&AsmParser::parse(src).expect("fixed program parses"))
}

#[derive(Clone, Copy, Debug, PartialEq, Eq)]
pub enum Ev {
    Load(u8),
    Edges(u16),
    ToggleStep,
    Interrupt,
    Continue,
    CpuReset,
    MasterReset,
    InputFc,
    Di1,
    Temp,
    Ai1,
    J1,
    Uio1,
}

pub const EVS: [Ev; 18] = [
    Ev::Load(1), Ev::Load(2), Ev::Load(3), Ev::Load(4), Ev::Edges(1), Ev::Edges(7), Ev::Edges(40), Ev::Edges(250), Ev::ToggleStep, Ev::Interrupt, Ev::Continue, Ev::CpuReset, Ev::MasterReset,
    Ev::InputFc, Ev::Di1, Ev::Temp, Ev::Ai1, Ev::J1,
];

struct Progs {
    p: [ByteCode; 4],
    follow: Vec<ByteCode>,
}

fn apply(m: &mut Machine, e: Ev, pr: &Progs) {
    match e {
        Ev::Load(i) => m.load(pr.p[i as usize - 1].clone()),
        Ev::Edges(n) => {
            for _ in 0..n {
                m.trigger_key_clock();
                if m.step_mode() == StepMode::Assembly && n > 7 {
                    // assembly steps are long; a handful is enough
                    break;
                }
            }
        }
        Ev::ToggleStep => {
            let n = if m.step_mode() == StepMode::Real { StepMode::Assembly } else { StepMode::Real };
            m.set_step_mode(n)
        }
        Ev::Interrupt => m.trigger_key_interrupt(),
        Ev::Continue => m.trigger_key_continue(),
        Ev::CpuReset => m.cpu_reset(),
        Ev::MasterReset => m.master_reset(),
        Ev::InputFc => m.set_input_fc(0x5A),
        Ev::Di1 => m.set_digital_input1(0xB7),
        Ev::Temp => m.set_temp(1.25),
        Ev::Ai1 => m.set_analog_input1(3.5),
        Ev::J1 => m.set_jumper1(true),
        Ev::Uio1 => m.set_universal_input_output1(true),
    }
}

fn digest(m: &Machine) -> u64 {
    let mut v: Vec<u8> = m.registers().content().to_vec();
    v.extend_from_slice(&m.bus().memory()[..]);
    for a in 0xF0..=0xFFu8 {
        v.push(m.bus().read(a));
    }
    v.push(m.bus().output_fe());
    v.push(m.bus().output_ff());
    v.push(m.bus().is_key_edge_int_enabled() as u8);
    v.extend_from_slice(format!("{:?}|{:?}|{:?}|{:?}|{:?}|{:?}|{:?}", m.bus().board(), m.state(), m.step_mode(), m.stacksize(), m.programsize(), m.verif_pending(), m.verif_alu_output()).as_bytes());
    v.push(m.verif_micro_addr() as u8);
    v.push((m.verif_micro_addr() >> 8) as u8);
    v.push(m.verif_ir());
    v.push(m.verif_last_bus_read());
    // derived Debug of the whole machine: every field of RawMachine, also ones added later (the bus
    // prints only its RAM there, its registers are covered by the reads above)
    v.extend_from_slice(format!("{:?}", m).as_bytes());
    mc::fnv(&v)
}

#[derive(Clone)]
struct Node {
    m: Machine,
    hist: Vec<Ev>,
    /// history contains nothing that leaves a trace in registers without read-back (timer, UART, MISR)
    clean: bool,
}

fn hist_line(h: &[Ev], extra: &str) -> String {
    format!("hist events={} then={}", h.iter().map(|e| format!("{:?}", e).replace(['(', ')'], "")).collect::<Vec<_>>().join(","), extra)
}

fn parse_hist(s: &str) -> Vec<Ev> {
    s.split(',')
        .filter(|t| !t.is_empty())
        .map(|t| {
            if let Some(n) = t.strip_prefix("Load") {
                Ev::Load(n.parse().unwrap())
            } else if let Some(n) = t.strip_prefix("Edges") {
                Ev::Edges(n.parse().unwrap())
            } else {
                match t {
                    "ToggleStep" => Ev::ToggleStep,
                    "Interrupt" => Ev::Interrupt,
                    "Continue" => Ev::Continue,
                    "CpuReset" => Ev::CpuReset,
                    "MasterReset" => Ev::MasterReset,
                    "InputFc" => Ev::InputFc,
                    "Di1" => Ev::Di1,
                    "Temp" => Ev::Temp,
                    "Ai1" => Ev::Ai1,
                    "J1" => Ev::J1,
                    _ => Ev::Uio1,
                }
            }
        })
        .collect()
}

/// All checks at one node. Returns violations (key, what, extra-for-replay).
fn check_node(n: &Node, pr: &Progs) -> Vec<(String, String, String)> {
    let mut bad = vec![];
    let m = &n.m;
    // ---------- (1) cpu_reset ----------
    {
        let mut r = m.clone();
        r.cpu_reset();
        let regs = r.registers().content();
        let mut power_on = vec![];
        if regs != &[0u8; 8] {
            power_on.push(format!("registers {:02x?}", regs));
        }
        if r.word().bits() != 0x02 || r.verif_ir() != 0x02 {
            power_on.push(format!("instruction register {:#04x}", r.verif_ir()));
        }
        if r.verif_micro_addr() != 0 {
            power_on.push(format!("micro address {:#05x}", r.verif_micro_addr()));
        }
        if r.verif_pending() != (None, false, false, false) {
            power_on.push(format!("pending latches {:?}", r.verif_pending()));
        }
        if r.verif_last_bus_read() != 0 {
            power_on.push(format!("bus latch {:#04x}", r.verif_last_bus_read()));
        }
        let alu = r.verif_alu_output();
        if alu.output() != 0 || alu.carry_out() || alu.zero_out() || alu.negative_out() {
            power_on.push(format!("ALU latch {:?}", alu));
        }
        if r.bus().output_fe() != 0 || r.bus().output_ff() != 0 {
            power_on.push(format!("outputs {:#04x}/{:#04x}", r.bus().output_fe(), r.bus().output_ff()));
        }
        if r.bus().is_key_edge_int_enabled() {
            power_on.push("MICR key-edge enable still set".into());
        }
        if r.state() != State::Running {
            power_on.push(format!("state {:?}", r.state()));
        }
        if !power_on.is_empty() {
            bad.push(("cpu-reset/not-power-on".into(), format!("after cpu_reset: {}", power_on.join("; ")), "CpuReset".into()));
        }
        let mut touched = vec![];
        if r.bus().memory()[..] != m.bus().memory()[..] {
            touched.push("RAM".to_string());
        }
        for a in 0xFC..=0xFFu8 {
            if r.bus().read(a) != m.bus().read(a) {
                touched.push(format!("input register {:#04x}", a));
            }
        }
        if r.bus().board() != m.bus().board() {
            touched.push("extension board".into());
        }
        if r.stacksize() != m.stacksize() || r.programsize() != m.programsize() {
            touched.push("stack/program limits".into());
        }
        if r.step_mode() != m.step_mode() {
            touched.push("step mode".into());
        }
        if !touched.is_empty() {
            bad.push(("cpu-reset/touches-more".into(), format!("cpu_reset changed: {}", touched.join(", ")), "CpuReset".into()));
        }
        // timer settings survive a cpu reset, UCR does not (differential on the whole Bus value)
        for v in [0x77u8, 0x12] {
            let mut a = m.clone();
            a.raw_mut().bus_mut().write(0xFC, v);
            if a.bus() == m.bus() {
                continue; // this value changes nothing here, try the other
            }
            let mut ra = a.clone();
            ra.cpu_reset();
            if ra.bus() == r.bus() {
                bad.push(("cpu-reset/clears-timer".into(), "a timer write (0xFC) made before cpu_reset left no trace after it".into(), "CpuReset".into()));
            }
            let mut ma = a.clone();
            ma.master_reset();
            let mut mm = m.clone();
            mm.master_reset();
            // ... also once the timer is switched on again afterwards (an equality that only looks at running
            // timers must not hide left-over dividers), with each of the control bytes that enable it
            let mut later = false;
            for ctl in [0x90u8, 0x9F, 0xB1, 0xD0] {
                let (mut x, mut y) = (ma.clone(), mm.clone());
                x.raw_mut().bus_mut().write(0xFD, ctl);
                y.raw_mut().bus_mut().write(0xFD, ctl);
                if x.bus() != y.bus() {
                    later = true;
                }
            }
            if ma.bus() != mm.bus() || later {
                bad.push(("master-reset/keeps-timer".into(), "a timer write (0xFC) made before master_reset is still visible after it (at once, or as soon as the timer is enabled again)".into(), "MasterReset".into()));
            }
            break;
        }
        let mut u = m.clone();
        u.raw_mut().bus_mut().write(0xFB, 0xF8);
        u.cpu_reset();
        if u.bus() != r.bus() {
            bad.push(("cpu-reset/keeps-ucr".into(), "a UART control write (0xFB) made before cpu_reset is still visible after it".into(), "CpuReset".into()));
        }
        // every field of the CPU side (also ones added later) after a reset, in EVERY history: a new
        // machine that is handed this machine's bus after Bus::cpu_reset (the bus's own reset is judged
        // by the differentials above and the getters), limits and step mode copied
        {
            let mut e = Machine::new(MachineConfig::default());
            let mut bus = m.bus().clone();
            bus.cpu_reset();
            *e.raw_mut().bus_mut() = bus;
            e.raw_mut().set_stacksize(m.stacksize());
            e.raw_mut().set_programsize(m.programsize());
            e.set_step_mode(m.step_mode());
            if e != r {
                bad.push(("cpu-reset/cpu-side-not-power-on".into(), format!("after cpu_reset the machine differs (derived PartialEq over every field) from a new machine holding the same bus, limits and step mode; Debug of the CPU side: {}", format!("{:?}", r).chars().take(400).collect::<String>()), "CpuReset".into()));
            }
            let mut e = Machine::new(MachineConfig::default());
            let mut bus = m.bus().clone();
            bus.master_reset();
            *e.raw_mut().bus_mut() = bus;
            e.raw_mut().set_stacksize(m.stacksize());
            e.raw_mut().set_programsize(m.programsize());
            e.set_step_mode(m.step_mode());
            let mut r2 = m.clone();
            r2.master_reset();
            if e != r2 {
                bad.push(("master-reset/cpu-side-not-power-on".into(), "after master_reset the machine differs (derived PartialEq over every field) from a new machine holding the same bus after Bus::master_reset, limits and step mode".into(), "MasterReset".into()));
            }
        }
        // complete private-field comparison for clean histories: rebuild the expected machine
        // from public setters only
        if n.clean {
            let mut e = Machine::new(MachineConfig::default());
            e.raw_mut().bus_mut().memory_mut().copy_from_slice(&m.bus().memory()[..]);
            e.raw_mut().bus_mut().input_fc(m.bus().read(0xFC));
            e.raw_mut().bus_mut().input_fd(m.bus().read(0xFD));
            e.raw_mut().bus_mut().input_fe(m.bus().read(0xFE));
            e.raw_mut().bus_mut().input_ff(m.bus().read(0xFF));
            *e.raw_mut().bus_mut().board_mut() = m.bus().board().clone();
            e.raw_mut().set_stacksize(m.stacksize());
            e.raw_mut().set_programsize(m.programsize());
            e.set_step_mode(m.step_mode());
            if e != r {
                bad.push(("cpu-reset/whole-machine".into(), "after cpu_reset the machine differs (derived PartialEq over every field) from a new machine given the same RAM, inputs, board, limits and step mode".into(), "CpuReset".into()));
            }
        }
    }
    // ---------- the resets are also public on the RawMachine inside (`raw_mut()`): the same resets ----------
    {
        let (mut a, mut b) = (m.clone(), m.clone());
        a.cpu_reset();
        b.raw_mut().cpu_reset();
        if a != b {
            bad.push(("cpu-reset/raw-door-differs".into(), format!("Machine::cpu_reset and RawMachine::cpu_reset (through raw_mut()) leave different machines: outputs {:#04x}/{:#04x} vs {:#04x}/{:#04x}, key-edge enable {} vs {}", a.bus().output_fe(), a.bus().output_ff(), b.bus().output_fe(), b.bus().output_ff(), a.bus().is_key_edge_int_enabled(), b.bus().is_key_edge_int_enabled()), "CpuReset".into()));
        }
        // the other thin wrappers of Machine: key interrupt, continue, input registers, board inputs
        let doors: [(&str, fn(&mut Machine), fn(&mut Machine)); 8] = [
            ("trigger_key_interrupt", |x| x.trigger_key_interrupt(), |x| x.raw_mut().trigger_key_edge_interrupt()),
            ("trigger_key_continue", |x| x.trigger_key_continue(), |x| x.raw_mut().trigger_key_continue()),
            ("set_input_fc", |x| x.set_input_fc(0x3C), |x| x.raw_mut().bus_mut().input_fc(0x3C)),
            ("set_input_ff", |x| x.set_input_ff(0xC3), |x| x.raw_mut().bus_mut().input_ff(0xC3)),
            ("set_digital_input1", |x| x.set_digital_input1(0x99), |x| x.raw_mut().bus_mut().board_mut().set_digital_input1(0x99)),
            ("set_jumper1", |x| x.set_jumper1(true), |x| x.raw_mut().bus_mut().board_mut().set_jumper1(true)),
            ("set_analog_input1", |x| x.set_analog_input1(2.5), |x| x.raw_mut().bus_mut().board_mut().set_analog_input1(2.5)),
            ("set_universal_input_output2", |x| x.set_universal_input_output2(true), |x| x.raw_mut().bus_mut().board_mut().set_universal_input_output2(true)),
        ];
        for (name, f, g) in doors {
            let (mut a, mut b) = (m.clone(), m.clone());
            f(&mut a);
            g(&mut b);
            if a != b {
                bad.push(("doors/machine-wrapper-differs".into(), format!("Machine::{} and the call it wraps (through raw_mut()) leave different machines", name), "none".into()));
            }
        }
        let (mut a, mut b) = (m.clone(), m.clone());
        a.master_reset();
        b.raw_mut().master_reset();
        if a != b {
            bad.push(("master-reset/raw-door-differs".into(), "Machine::master_reset and RawMachine::master_reset (through raw_mut()) leave different machines".into(), "MasterReset".into()));
        }
    }
    // ---------- the deprecated second loading door: load_raw = master reset + the bytes written from address 0 ----------
    {
        let bytes: Vec<u8> = (0..37u8).map(|i| i.wrapping_mul(29) ^ 0xC5).collect();
        let mut a = m.clone();
        #[allow(deprecated)]
        a.load_raw(bytes.iter());
        let mut b = m.clone();
        b.master_reset();
        b.raw_mut().bus_mut().memory_mut()[..bytes.len()].copy_from_slice(&bytes);
        if a != b {
            bad.push(("load-raw/not-master-reset-plus-bytes".into(), format!("load_raw differs from master reset + the bytes written from address 0: state {:?} vs {:?}, registers {:02x?} vs {:02x?}, outputs {:#04x}/{:#04x} vs {:#04x}/{:#04x}", a.state(), b.state(), a.registers().content(), b.registers().content(), a.bus().output_fe(), a.bus().output_ff(), b.bus().output_fe(), b.bus().output_ff()), "LoadRaw".into()));
        }
    }
    // ---------- (2) master_reset ----------
    {
        let mut r = m.clone();
        r.master_reset();
        let mut c = m.clone();
        c.cpu_reset();
        let mut probs = vec![];
        if r.registers() != c.registers() || r.state() != State::Running || r.verif_micro_addr() != 0 || r.bus().output_fe() != 0 || r.bus().output_ff() != 0 || r.bus().is_key_edge_int_enabled() {
            probs.push("CPU part not as after cpu_reset".to_string());
        }
        for a in 0xFC..=0xFFu8 {
            if r.bus().read(a) != 0 {
                probs.push(format!("input register {:#04x} = {:#04x}", a, r.bus().read(a)));
            }
        }
        let b = r.bus().board();
        if *b.digital_output1() != 0 || *b.digital_output2() != 0 {
            probs.push(format!("digital output ports {}/{}", b.digital_output1(), b.digital_output2()));
        }
        if *b.analog_outputs() != [0.0, 0.0] {
            probs.push(format!("analog outputs {:?}", b.analog_outputs()));
        }
        if b.daicr().bits() != 0 {
            probs.push(format!("interrupt control {:#04x}", b.daicr().bits()));
        }
        if *b.fan_rpm() != 0 {
            probs.push(format!("fan {} rpm", b.fan_rpm()));
        }
        // the fan's period register is a function of DAC1 (now 0): 255, by getter and as read at 0xF2
        if b.get_fan_period() != 255 || r.bus().read(0xF2) != 255 {
            probs.push(format!("fan period register {} / read(0xF2) {} (255 with DAC1 = 0)", b.get_fan_period(), r.bus().read(0xF2)));
        }
        // the output ports read back as cleared wherever they can be observed
        if r.bus().read(0xF0) != *b.digital_input1() {
            probs.push(format!("read(0xF0) {:#04x} is not the input port {:#04x}", r.bus().read(0xF0), b.digital_input1()));
        }
        if *b.uio_dir() != [false; 3] {
            probs.push(format!("UIO directions {:?}", b.uio_dir()));
        }
        // not among the things a master reset clears: the board's status registers as far as they are fed by
        // the physical inputs - jumper and UIO levels, and the interrupt flip-flop / source flag latched from them
        {
            let pre = m.bus().board();
            if b.daisr().bits() != pre.daisr().bits() || (b.dasr().bits() ^ pre.dasr().bits()) & 0xC7 != 0 {
                probs.push(format!("board status changed: interrupt status {:#06b} -> {:#06b}, status register {:#010b} -> {:#010b}", pre.daisr().bits(), b.daisr().bits(), pre.dasr().bits(), b.dasr().bits()));
            }
        }
        if !probs.is_empty() {
            let board_only = probs.iter().all(|p| !p.starts_with("CPU") && !p.starts_with("input"));
            bad.push((
                if board_only { "master-reset/board-outputs-survive".into() } else { "master-reset/not-cleared".into() },
                format!("after master_reset: {}", probs.join("; ")),
                "MasterReset".into(),
            ));
        }
        // "interrupt control cleared" in behaviour, not only in the register read-back: with no source
        // selected no external change may raise the board's interrupt flags any more
        {
            let before = r.bus().read(0xF3);
            let probes: [(&str, fn(&mut Machine, bool)); 7] = [
                ("jumper 1", |x, b| x.set_jumper1(b)),
                ("UIO1", |x, b| x.set_universal_input_output1(b)),
                ("UIO2", |x, b| x.set_universal_input_output2(b)),
                ("UIO3", |x, b| x.set_universal_input_output3(b)),
                ("analog input 1", |x, b| x.set_analog_input1(if b { 4.5 } else { 0.0 })),
                ("analog input 2", |x, b| x.set_analog_input2(if b { 4.5 } else { 0.0 })),
                ("temperature", |x, b| x.set_temp(if b { 4.5 } else { 0.0 })),
            ];
            for (name, f) in probes {
                let mut x = r.clone();
                for level in [true, false, true, false] {
                    f(&mut x, level);
                    if x.bus().read(0xF3) != before {
                        bad.push((
                            "master-reset/interrupt-control-still-active".into(),
                            format!("after master_reset the interrupt control register reads {:#04x}, but a change of {} raised the board's interrupt flags ({:#06b} -> {:#06b})", x.bus().board().daicr().bits(), name, before, x.bus().read(0xF3)),
                            "MasterReset".into(),
                        ));
                        break;
                    }
                }
            }
        }
        // differential future of the board: after the reset, with its physical inputs applied once more (so
        // that both sides evaluate their comparators), it must answer a fixed sequence of port writes and
        // input changes exactly like a new board that was given the same inputs
        {
            use emulator_2a_lib::machine::Bus;
            let src = r.bus().board().clone();
            let mut a = r.bus().clone();
            let mut f = Bus::new();
            let ext = src.dasr().bits();
            for x in [&mut a, &mut f] {
                let b = x.board_mut();
                b.set_digital_input1(*src.digital_input1());
                b.set_temp(*src.temp());
                b.set_analog_input1(src.analog_inputs()[0]);
                b.set_analog_input2(src.analog_inputs()[1]);
                b.set_jumper1(ext & 0x40 != 0);
                b.set_jumper2(ext & 0x80 != 0);
                b.set_universal_input_output1(ext & 0x01 != 0);
                b.set_universal_input_output2(ext & 0x02 != 0);
                b.set_universal_input_output3(ext & 0x04 != 0);
                x.write(0xF3, 0);
            }
            // (the FAN status bit is sticky: set by any write to 0xF0 and by nothing else, see refmodel/FROZEN.md;
            // it is not part of the statement and masked here; so is the SOURCE flag of the interrupt status, which
            // nothing clears - the statement has master reset clear the interrupt *control*, not the status)
            let io = |x: &Bus| -> [u8; 4] { [x.read(0xF0), x.read(0xF1) & !0x20, x.read(0xF2), x.read(0xF3) & !0x01] };
            if io(&a) != io(&f) {
                bad.push(("master-reset/board-differs-from-a-new-one".into(), format!("after master_reset and re-applying its inputs the board reads {:02x?} at 0xF0-0xF3, a new board with the same inputs {:02x?}", io(&a), io(&f)), "MasterReset".into()));
            } else {
                type Probe = fn(&mut Bus);
                let probes: [(&str, Probe); 16] = [
                    ("write(0xF0,200)", |x| x.write(0xF0, 200)),
                    ("write(0xF1,100)", |x| x.write(0xF1, 100)),
                    ("write(0xF2,0xC4)", |x| x.write(0xF2, 0xC4)),
                    ("analog input 1 = 4.0", |x| x.board_mut().set_analog_input1(4.0)),
                    ("analog input 1 = 0.5", |x| x.board_mut().set_analog_input1(0.5)),
                    ("write(0xF3,0)", |x| x.write(0xF3, 0)),
                    ("write(0xF2,0xC9)", |x| x.write(0xF2, 0xC9)),
                    ("jumper 1 toggled", |x| { let j = x.read(0xF1) & 0x40 != 0; x.board_mut().set_jumper1(!j) }),
                    ("jumper 1 toggled back", |x| { let j = x.read(0xF1) & 0x40 != 0; x.board_mut().set_jumper1(!j) }),
                    ("write(0xF2,0x85)", |x| x.write(0xF2, 0x85)),
                    ("write(0xF2,0x02)", |x| x.write(0xF2, 0x02)),
                    ("UIO1 toggled", |x| { let j = x.read(0xF1) & 0x01 != 0; x.board_mut().set_universal_input_output1(!j) }),
                    ("UIO2 toggled", |x| { let j = x.read(0xF1) & 0x02 != 0; x.board_mut().set_universal_input_output2(!j) }),
                    ("write(0xF0,0)", |x| x.write(0xF0, 0)),
                    ("temperature = 3.0", |x| x.board_mut().set_temp(3.0)),
                    ("write(0xF1,255)", |x| x.write(0xF1, 255)),
                ];
                for (name, p) in probes {
                    p(&mut a);
                    p(&mut f);
                    if io(&a) != io(&f) {
                        bad.push(("master-reset/board-differs-from-a-new-one".into(), format!("after master_reset the board answers {} with {:02x?} at 0xF0-0xF3, a new board with the same inputs with {:02x?}", name, io(&a), io(&f)), "MasterReset".into()));
                        break;
                    }
                }
            }
        }
        let mut touched = vec![];
        if r.bus().memory()[..] != m.bus().memory()[..] {
            touched.push("RAM".to_string());
        }
        let (o, n2) = (m.bus().board(), r.bus().board());
        if o.digital_input1() != n2.digital_input1() || o.temp() != n2.temp() || o.analog_inputs() != n2.analog_inputs() {
            touched.push("board inputs (DI1/temperature/analog)".into());
        }
        if (o.dasr().bits() ^ n2.dasr().bits()) & 0xC0 != 0 {
            touched.push("jumpers".into());
        }
        if r.stacksize() != m.stacksize() || r.programsize() != m.programsize() || r.step_mode() != m.step_mode() {
            touched.push("limits / step mode".into());
        }
        if !touched.is_empty() {
            bad.push(("master-reset/touches-more".into(), format!("master_reset changed: {}", touched.join(", ")), "MasterReset".into()));
        }
    }
    // ---------- (3) load: history independence ----------
    for (qi, q) in pr.follow.iter().enumerate() {
        let mut a = m.clone();
        a.load(q.clone());
        let mut f = Machine::new(MachineConfig::default());
        f.load(q.clone());
        for x in [&mut a, &mut f] {
            x.set_input_fc(0x21);
            x.set_input_fd(0x43);
        }
        // image followed by zeros, limits applied
        let img: Vec<u8> = q.bytes().cloned().collect();
        // "RAM = the image followed by zeros" whatever the RAM held: the same load on a copy whose every
        // RAM cell (0x00-0xEF) was non-zero before
        {
            let mut d = m.clone();
            for (i, b) in d.raw_mut().bus_mut().memory_mut().iter_mut().enumerate() {
                *b = (i as u8) | 0x01;
            }
            d.load(q.clone());
            let ram = d.bus().memory();
            if let Some(i) = (0..240).find(|&i| ram[i] != img.get(i).cloned().unwrap_or(0)) {
                bad.push(("load/ram-image".into(), format!("after load of follow-up #{} onto a fully written RAM, cell {:#04x} holds {:#04x} (image followed by zeros: {:#04x})", qi, i, ram[i], img.get(i).cloned().unwrap_or(0)), format!("LoadFollow{}", qi)));
                continue;
            }
        }
        // load = master reset + RAM image + limits and nothing else: rebuild that from public calls
        // and compare whole machines (derived PartialEq: covers the step mode and every later field)
        {
            let mut e = m.clone();
            e.master_reset();
            {
                let ram = e.raw_mut().bus_mut().memory_mut();
                for (i, b) in ram.iter_mut().enumerate() {
                    *b = img.get(i).cloned().unwrap_or(0);
                }
            }
            if q.stacksize != Stacksize::NotSet {
                e.raw_mut().set_stacksize(q.stacksize);
            }
            match q.programsize {
                Programsize::Auto => e.raw_mut().set_programsize(Programsize::Size(img.len() as u8)),
                Programsize::Size(n) => e.raw_mut().set_programsize(Programsize::Size(n)),
                Programsize::NotSet => {}
            }
            e.set_input_fc(0x21);
            e.set_input_fd(0x43);
            if e != a {
                let what = if e.step_mode() != a.step_mode() { "step mode" } else if e.bus() != a.bus() { "bus/board" } else { "cpu" };
                bad.push(("load/more-than-master-reset-image-limits".into(), format!("load of follow-up #{} differs ({}) from master reset + RAM image + limits", qi, what), format!("LoadFollow{}", qi)));
                continue;
            }
        }
        let ram = a.bus().memory();
        if ram[..img.len()] != img[..] || ram[img.len()..].iter().any(|b| *b != 0) {
            bad.push(("load/ram-image".into(), format!("after load of follow-up #{} the RAM is not the image followed by zeros", qi), format!("LoadFollow{}", qi)));
            continue;
        }
        // limits as the program states them: explicit values, else 16 / the image size
        // (NOSET leaves the limit of the machine's earlier life in place)
        let exp_prog = match q.programsize {
            Programsize::Auto => Programsize::Size(img.len() as u8),
            Programsize::NotSet => m.programsize(),
            other => other,
        };
        let exp_stack = if q.stacksize == Stacksize::NotSet { m.stacksize() } else { q.stacksize };
        if a.programsize() != exp_prog || a.stacksize() != exp_stack {
            bad.push(("load/limits".into(), format!("after load of follow-up #{}: limits {:?}/{:?}, the program states {:?}/{:?} (NOSET = the limit in force before: {:?}/{:?})", qi, a.stacksize(), a.programsize(), q.stacksize, q.programsize, m.stacksize(), m.programsize()), format!("LoadFollow{}", qi)));
            continue;
        }
        let noset = q.programsize == Programsize::NotSet || q.stacksize == Stacksize::NotSet;
        if noset && (a.stacksize() != f.stacksize() || a.programsize() != f.programsize()) {
            // a NOSET program legitimately runs under the earlier limits: no comparison with a new machine
            continue;
        }
        if a.stacksize() != f.stacksize() || a.programsize() != f.programsize() {
            bad.push(("load/limits".into(), format!("after load of follow-up #{}: limits {:?}/{:?}, a new machine has {:?}/{:?}", qi, a.stacksize(), a.programsize(), f.stacksize(), f.programsize()), format!("LoadFollow{}", qi)));
            continue;
        }
        for edge in 0..300u32 {
            let same = a.registers() == f.registers()
                && a.bus().memory()[..] == f.bus().memory()[..]
                && a.bus().output_fe() == f.bus().output_fe()
                && a.bus().output_ff() == f.bus().output_ff()
                && a.state() == f.state()
                && a.is_instruction_done() == f.is_instruction_done()
                && a.signals().next_microprogram_address() == f.signals().next_microprogram_address()
                && a.verif_pending() == f.verif_pending();
            if !same {
                bad.push((
                    "load/history-dependent".into(),
                    format!("follow-up #{} diverges from a new machine at edge {}: registers {:02x?} vs {:02x?}, state {:?} vs {:?}, outputs {:#04x}/{:#04x} vs {:#04x}/{:#04x}", qi, edge, a.registers().content(), f.registers().content(), a.state(), f.state(), a.bus().output_fe(), a.bus().output_ff(), f.bus().output_fe(), f.bus().output_ff()),
                    format!("LoadFollow{}", qi),
                ));
                break;
            }
            a.raw_mut().trigger_clock_edge();
            f.raw_mut().trigger_clock_edge();
        }
    }
    bad
}

pub fn run() {
    let mut ctx = Ctx::from_args("model_checking");
    let pr = Progs { p: [compile(P1), compile(P2), compile(P3), compile(P4)], follow: FOLLOW.iter().map(|s| compile(s)).collect() };
    if let Some(f) = ctx.replay_file.clone() {
        let text = std::fs::read_to_string(&f).expect("replay file");
        let kv = mc::kv(text.lines().next().unwrap_or(""));
        let hist = parse_hist(&kv["events"]);
        let mut m = Machine::new(MachineConfig::default());
        let mut clean = true;
        for e in &hist {
            apply(&mut m, *e, &pr);
            if matches!(e, Ev::Interrupt | Ev::Load(1) | Ev::Load(2) | Ev::Load(4)) {
                clean = false;
            }
        }
        let bad = check_node(&Node { m, hist: hist.clone(), clean }, &pr);
        println!("history {:?}: {} finding(s)", hist, bad.len());
        for (k, w, x) in bad {
            println!("  {} :: {}", k, w);
            ctx.violation(k, w, hist_line(&hist, &x));
        }
        ctx.finish();
    }
    let quick = ctx.quick();
    let depth = if quick { 8 } else { 11 };
    let found = std::sync::Mutex::new(BTreeMap::<String, (u64, Vec<(String, String)>)>::new());
    let init = Node { m: Machine::new(MachineConfig::default()), hist: vec![], clean: true };
    let _ = &init.hist;
    let checked = std::sync::atomic::AtomicU64::new(0);
    let node_check = |n: &Node| {
        checked.fetch_add(1, std::sync::atomic::Ordering::Relaxed);
        mc::watch::progress(|| hist_line(&n.hist, "check"));
        let r = mc::catch(|| check_node(n, &pr));
        let list = match r {
            Ok(l) => l,
            Err(p) => vec![(format!("panic/{}", p.file()), format!("panic at {}: {}", p.site(), p.msg), "check".into())],
        };
        if !list.is_empty() {
            let mut g = found.lock().unwrap();
            for (k, w, x) in list {
                let e = g.entry(k).or_default();
                e.0 += 1;
                if e.1.len() < 3 || n.hist.len() < 2 {
                    e.1.push((hist_line(&n.hist, &x), w));
                    e.1.sort_by_key(|c| c.0.len());
                    e.1.truncate(3);
                }
            }
        }
    };
    node_check(&init);
    mc::watch::idle();
    let mut stats = mc::BfsStats::default();
    // the per-node checks run on every distinct state: a second pass so the expensive part is parallel
    // (bfs() visits sequentially); re-enumerate distinct nodes level by level
    {
        let mut seen = std::collections::HashSet::new();
        let mut frontier = vec![Node { m: Machine::new(MachineConfig::default()), hist: vec![], clean: true }];
        seen.insert((digest(&frontier[0].m), true));
        stats.states = 1;
        stats.frontier_sizes.push(1);
        for _ in 0..depth {
            let expanded: Vec<Vec<Node>> = mc::par_map(&frontier, |n| {
                EVS.iter()
                    .filter_map(|e| {
                        let mut c = n.clone();
                        c.hist.push(*e);
                        mc::watch::progress(|| hist_line(&c.hist, "none"));
                        if matches!(e, Ev::Interrupt | Ev::Load(1) | Ev::Load(2) | Ev::Load(4)) {
                            c.clean = false;
                        }
                        match mc::catch(|| apply(&mut c.m, *e, &pr)) {
                            Ok(_) => Some(c),
                            Err(p) => {
                                let mut g = found.lock().unwrap();
                                let en = g.entry(format!("panic/{}", p.file())).or_default();
                                en.0 += 1;
                                if en.1.len() < 3 {
                                    en.1.push((hist_line(&c.hist, "none"), format!("panic at {}: {}", p.site(), p.msg)));
                                }
                                None
                            }
                        }
                    })
                    .collect()
            });
            let mut next = vec![];
            for v in expanded {
                for c in v {
                    stats.transitions += 1;
                    if seen.insert((digest(&c.m), c.clean)) {
                        next.push(c);
                    }
                }
            }
            stats.states += next.len();
            stats.frontier_sizes.push(next.len());
            stats.depth_completed += 1;
            mc::par_map(&next, |n| node_check(n));
            frontier = next;
        }
    }
    // long histories: 16 fixed histories of 1 500 events each (the event list walked with 16 strides); the
    // node checks run after every 100th event and at the end - a machine's life is longer than the BFS depth
    let mut long_events = 0u64;
    {
        let traces: Vec<usize> = (0..16).collect();
        let counts = mc::par_map(&traces, |&t| {
            let mut n = Node { m: Machine::new(MachineConfig::default()), hist: vec![], clean: true };
            let stride = 2 * t + 1;
            let mut cnt = 0u64;
            for i in 0..1500usize {
                let e = EVS[(i * stride + i / 23 + t) % EVS.len()];
                n.hist.push(e);
                if matches!(e, Ev::Interrupt | Ev::Load(1) | Ev::Load(2) | Ev::Load(4)) {
                    n.clean = false;
                }
                mc::watch::progress(|| format!("long history {} event #{} (walk of the event list with stride {})", t, i, stride));
                if let Err(p) = mc::catch(|| apply(&mut n.m, e, &pr)) {
                    let mut g = found.lock().unwrap();
                    let en = g.entry(format!("panic/{}", p.file())).or_default();
                    en.0 += 1;
                    en.1.push((hist_line(&n.hist, "none"), format!("long history {}: panic at {}: {}", t, p.site(), p.msg)));
                    break;
                }
                cnt += 1;
                if i % 100 == 99 {
                    node_check(&n);
                }
            }
            cnt
        });
        long_events += counts.iter().sum::<u64>();
    }
    mc::watch::idle();
    ctx.set("long_history_events", long_events);
    let found = found.into_inner().unwrap();
    for (k, (n, cases)) in &found {
        for (l, w) in cases.iter().take(3) {
            ctx.violation(k.clone(), format!("{} ({} nodes in class)", w, n), l.clone());
        }
    }
    let nodes_checked = checked.load(std::sync::atomic::Ordering::Relaxed);
    ctx.set("states", stats.states);
    ctx.set("transitions", stats.transitions);
    ctx.set("traces_validated_against_impl", nodes_checked * (2 + FOLLOW.len() as u64));
    ctx.set("evaluations", nodes_checked * (2 + FOLLOW.len() as u64));
    ctx.set("distinct_nontrivial", stats.states);
    ctx.set("rule", "BFS over histories of 18 events (load of 4 programs - the first selects jumper 1 as the board interrupt source with IE -, 1/7/40/250 key-clock steps, step-mode toggle, key interrupt, continue, both resets, input and board setters), deduplicated on the derived Debug of the whole Machine; at every distinct node: cpu_reset vs power-on values and untouched parts (whole-Machine equality against a machine rebuilt from public setters for histories without hidden-register writes), master_reset additions, timer/UCR differentials, the board after a master reset answers a 16-operation probe sequence like a new board with the same inputs and raises no interrupt flags; both doors (Machine / raw_mut()) of every reset and wrapper agree; load_raw = master reset + bytes; master reset leaves the board status fed by physical inputs (interrupt flip-flop / source flag, jumper and UIO bits) alone; load == master reset + image + limits, also onto a copy with every RAM cell non-zero, and load of 11 follow-up programs (incl. NOSET and empty images) run in lock-step (300 edges) with a new machine; 16 long histories of 1 500 events");
    ctx.set("exhaustive", !stats.cap_hit);
    ctx.set("bounds", format!("history depth {}; {} distinct nodes checked", depth, nodes_checked));
    ctx.set("bfs_frontiers", Json::Arr(stats.frontier_sizes.iter().map(|n| Json::Int(*n as i64)).collect()));
    ctx.set("nodes_checked", nodes_checked);
    ctx.set("distinct_outcomes", stats.states);
    ctx.sample(hist_line(&[Ev::Load(1), Ev::Edges(250), Ev::Interrupt, Ev::Edges(40)], "CpuReset"));
    ctx.sample(P1.to_string());
    ctx.set("determinism_selftest", {
        let mut a = Machine::new(MachineConfig::default());
        let mut b = Machine::new(MachineConfig::default());
        for e in [Ev::Load(1), Ev::Edges(250), Ev::Interrupt, Ev::Edges(40)] {
            apply(&mut a, e, &pr);
            apply(&mut b, e, &pr);
        }
        a == b && digest(&a) == digest(&b)
    });
    ctx.assume("MISR bits and the UART send register are outside the statement and not compared; histories are bounded by the depth; follow-up programs use RAM and FC-FF only");
    ctx.finish();
}
