//! C11 — one assembly-mode step == clock-stepping to the next instruction boundary.
//! Twin comparison at every state reached by clock-stepping into a program corpus; termination
//! predicted by a bounded twin with exact cycle detection and confirmed in a killable child.
use crate::isa_sweep::{self as sw, Case};
use emulator_2a_lib::machine::{Machine, State, StepMode};
use emulator_2a_lib::parser::{Programsize, Stacksize};
use mc::{Ctx, Json};
use refmodel::isa::{defined_first, defined_second, Cpu};
use std::collections::{BTreeMap, HashSet};

#[derive(Debug, Clone, Copy, PartialEq, Eq)]
enum SpecEnd {
    Returned(u32),
    /// The specification twin provably never reaches a boundary (exact state cycle) or exceeds the bound.
    Never,
}

/// "At an instruction boundary" for the specification twin: the current control word is a fetch
/// word (MAC3), read from the public signals rather than through `is_instruction_done()`, which is
/// part of what is being checked.
fn at_boundary(m: &Machine) -> bool {
    m.signals().mac3()
}

/// The step by its specification, on raw clock edges.
fn spec_step(m: &mut Machine) -> SpecEnd {
    let mut n = 0u32;
    const BOUND: u32 = 4096;
    let mut seen: Vec<Machine> = vec![];
    // phase 1: leave the boundary we may be sitting on
    while at_boundary(m) && m.state() == State::Running {
        m.raw_mut().trigger_clock_edge();
        n += 1;
        if n > BOUND {
            return SpecEnd::Never;
        }
    }
    // phase 2: complete the instruction
    while !at_boundary(m) && m.state() == State::Running {
        if n % 8 == 0 {
            if seen.iter().any(|s| s == m) {
                return SpecEnd::Never;
            }
            seen.push(m.clone());
        }
        m.raw_mut().trigger_clock_edge();
        n += 1;
        if n > BOUND {
            return SpecEnd::Never;
        }
    }
    SpecEnd::Returned(n)
}

fn eq_mod_mode(a: &Machine, b: &Machine) -> bool {
    let mut a = a.clone();
    a.set_step_mode(b.step_mode());
    a == *b
}

#[derive(Clone)]
struct Prog {
    name: String,
    case: Case,
    stack: Stacksize,
    prog: Programsize,
    int_enabled: bool,
    run_edges: u32,
    /// the continue key is pressed as soon as the machine is Stopped (before the next edge)
    cont: bool,
}

impl Prog {
    fn machine(&self) -> Machine {
        let mut m = self.case.machine();
        m.raw_mut().set_stacksize(self.stack);
        m.raw_mut().set_programsize(self.prog);
        if self.int_enabled {
            m.raw_mut().bus_mut().write(0xF9, 0x01);
        }
        m
    }
    fn line(&self, e: u32, int: bool, k: u32) -> String {
        format!(
            "step e={} int={} k={} cont={} stack={} prog={} micr={} edges={} {}",
            e, int as u8, k, self.cont as u8,
            crate::c05::SIZES.iter().position(|s| *s == self.stack).unwrap_or(0),
            match self.prog { Programsize::Size(n) => n as i32, _ => -1 },
            self.int_enabled as u8, self.run_edges, self.case.line()
        )
    }
}

/// Run `e` edges of the program; with `cont` the continue key is pressed whenever the machine is
/// Stopped (also at the very end, so the state handed out may be "just continued").
fn run_to(p: &Prog, e: u32) -> Machine {
    let mut m = p.machine();
    for _ in 0..e {
        if p.cont && m.state() == State::Stopped {
            m.trigger_key_continue();
        }
        m.raw_mut().trigger_clock_edge();
    }
    if p.cont && m.state() == State::Stopped {
        m.trigger_key_continue();
    }
    m
}

fn parse_line(line: &str) -> (Prog, u32, bool, u32) {
    let kv = mc::kv(line);
    let case = Case::parse(&line[line.find("isa ").expect("isa part")..]);
    let prog = match kv["prog"].parse::<i32>().unwrap() {
        -1 => Programsize::Auto,
        n => Programsize::Size(n as u8),
    };
    (
        Prog {
            name: "replay".into(),
            case,
            stack: crate::c05::SIZES[mc::num(&kv["stack"]) as usize],
            prog,
            int_enabled: kv["micr"] == "1",
            run_edges: mc::num(&kv["edges"]) as u32,
            cont: kv.get("cont").map(|c| c == "1").unwrap_or(false),
        },
        mc::num(&kv["e"]) as u32,
        kv["int"] == "1",
        mc::num(&kv["k"]) as u32,
    )
}

/// Check one state: machine after `e` edges, optionally with a key interrupt just triggered.
/// Returns (key, what) on a violation; `hang` tells that the real call must not be made in-process.
fn check_state(m0: &Machine, k: u32) -> Result<(u32, Option<(u16, u8)>), (String, String)> {
    if m0.is_instruction_done() != at_boundary(m0) {
        return Err((
            "boundary/is-instruction-done-disagrees-with-the-fetch-word".into(),
            format!("is_instruction_done() = {} but the current control word {} a fetch word (micro address {:#05x})", m0.is_instruction_done(), if at_boundary(m0) { "is" } else { "is not" }, m0.verif_micro_addr()),
        ));
    }
    // specification twin, k steps
    let mut b = m0.clone();
    b.set_step_mode(StepMode::Real);
    let mut total = 0;
    for _ in 0..k {
        match spec_step(&mut b) {
            SpecEnd::Returned(n) => total += n,
            SpecEnd::Never => return Ok((0, Some((b.verif_micro_addr() as u16, b.verif_ir())))),
        }
    }
    // real call
    let mut a = m0.clone();
    a.set_step_mode(StepMode::Assembly);
    for _ in 0..k {
        a.trigger_key_clock();
    }
    if !eq_mod_mode(&a, &b) {
        let (ca, cb) = (crate::mach::cpu_of(&a), crate::mach::cpu_of(&b));
        return Err((
            "step/differs-from-clock-stepping".into(),
            format!(
                "{} assembly step(s) != {} clock edges to the boundary: asm {:x?} maddr={:#05x} state {:?} done={} | spec {:x?} maddr={:#05x} state {:?} done={}",
                k, total, ca, a.verif_micro_addr(), a.state(), a.is_instruction_done(), cb, b.verif_micro_addr(), b.state(), b.is_instruction_done()
            ),
        ));
    }
    // mode switches do not alter the machine
    let mut t = m0.clone();
    t.set_step_mode(StepMode::Assembly);
    t.set_step_mode(StepMode::Real);
    t.set_step_mode(m0.step_mode());
    if t != *m0 {
        return Err(("mode-switch/alters-machine".into(), "toggling the step mode changed the machine".into()));
    }
    // Real-mode key clock == one raw edge
    let mut r1 = m0.clone();
    r1.set_step_mode(StepMode::Real);
    r1.trigger_key_clock();
    let mut r2 = m0.clone();
    r2.set_step_mode(StepMode::Real);
    r2.raw_mut().trigger_clock_edge();
    if r1 != r2 {
        return Err(("real-step/not-one-edge".into(), "a real-mode step is not exactly one clock edge".into()));
    }
    Ok((total, None))
}

/// Is a stuck control state explained by an undefined opcode (REF-ISA's sets)? Bit 4 of the micro
/// address tells whether the IR holds a first or a second opcode byte.
fn stuck_on_undefined(addr: u16, ir: u8) -> bool {
    if addr & 0x10 == 0 {
        !defined_first(ir)
    } else {
        !defined_second(ir)
    }
}

fn corpus(quick: bool) -> Vec<Prog> {
    let mut v = vec![];
    let free = (Stacksize::_0, Programsize::Size(255));
    // two-instruction sequences of the C01 alphabet
    let alpha: Vec<(&str, Vec<u8>)> = vec![
        ("NOP", vec![0x02]), ("CLR", vec![0x05]), ("EI", vec![0x08]), ("DI", vec![0x0C]), ("PUSH", vec![0x10]), ("POP", vec![0x15]),
        ("PUSHF", vec![0x18]), ("POPF", vec![0x1C]), ("JR+1", vec![0x20, 0x01]), ("JCS", vec![0x21, 0x01]), ("CALL", vec![0x28, 0x30]),
        ("RET", vec![0x17]), ("RETI", vec![0x2C]), ("NEG", vec![0x35]), ("INC", vec![0x46]), ("DEC((R2+))", vec![0x5E]), ("ADD", vec![0x64]),
        ("SUB", vec![0x88]), ("AND", vec![0x99]), ("MUL", vec![0xB4]), ("DIV", vec![0xC9]), ("XOR", vec![0xD0]),
        ("MOV R0,c", vec![0xFB, 0x81, 0x10]), ("MOV (R2+),R0", vec![0xF0, 0x1A]), ("MOV R1,((R2+))", vec![0xFE, 0x11]),
        ("CMP", vec![0xF6, 0x20]), ("BITS (0xFF)", vec![0xF0, 0x5F, 0xFF]), ("BITC", vec![0xFB, 0x0F, 0x6A]), ("LDSP", vec![0xF1, 0x40]),
        ("LDFR", vec![0xFB, 0xA9, 0x44]), ("LD (0xFC)", vec![0xFF, 0xFC, 0x11]), ("ST (0xF0)", vec![0xF1, 0x1F, 0xF0]),
        ("STOP", vec![0x01]), ("ERR00", vec![0x00]), ("SWI", vec![0xF0, 0x02]),
    ];
    let starts = [
        Cpu { r: [0x07, 0x03, 0xD0], pc: 0x10, fr: 0x08, sp: 0xE0 },
        Cpu { r: [0xFF, 0x00, 0x40], pc: 0x10, fr: 0x0F, sp: 0xEF },
        // R1 / R2 = 0xF7 / 3: a DIV of 170 clock edges, MUL with a full multiplier
        Cpu { r: [0xFF, 0xF7, 0x03], pc: 0x10, fr: 0x08, sp: 0xE8 },
    ];
    let alpha_n = if quick { alpha.len() } else { alpha.len() };
    for (si, s) in starts.iter().enumerate() {
        let long_div = si == 2;
        for a in alpha.iter().take(alpha_n) {
            for b in alpha.iter().take(alpha_n) {
                let mut code = a.1.clone();
                code.extend(&b.1);
                code.extend([0x02, 0x20, 0xFE]);
                let mut ram = sw::pattern(si);
                // ISR at 2 is reached through the vector: JR over it from 0 is not needed, code starts at 0x10
                sw::place(&mut ram, 0x00, &[0x02, 0x02, 0x46, 0x2C]); // ISR at 2: INC R2 ; RETI
                sw::place(&mut ram, 0x10, &code);
                sw::place(&mut ram, 0x30, &[0x46, 0x17]);
                v.push(Prog {
                    name: format!("{} ; {}", a.0, b.0),
                    case: Case { cpu: *s, scratch: (0, 0), ram, inputs: [9, 8, 7, 6], di1: 0 },
                    stack: free.0,
                    prog: free.1,
                    int_enabled: true,
                    run_edges: if long_div { 200 } else { 70 },
                    cont: false,
                });
            }
        }
    }
    // all three-instruction sequences; quick: over a reduced alphabet (one per micro-routine family), thorough: over the whole alphabet
    {
        let red: Vec<&(&str, Vec<u8>)> = alpha.iter().filter(|a| !quick || ["EI", "PUSH", "POP", "CALL", "RET", "RETI", "DEC((R2+))", "MUL", "DIV", "MOV (R2+),R0", "MOV R1,((R2+))", "BITC", "LDSP", "LDFR", "STOP", "SWI"].contains(&a.0)).collect();
        for a in &red {
            for b in &red {
                for c in &red {
                    let mut code = a.1.clone();
                    code.extend(&b.1);
                    code.extend(&c.1);
                    code.extend([0x02, 0x20, 0xFE]);
                    let mut ram = sw::pattern(2);
                    sw::place(&mut ram, 0x00, &[0x02, 0x02, 0x46, 0x2C]);
                    sw::place(&mut ram, 0x10, &code);
                    sw::place(&mut ram, 0x30, &[0x46, 0x17]);
                    v.push(Prog {
                        name: format!("{} ; {} ; {}", a.0, b.0, c.0),
                        case: Case { cpu: starts[0], scratch: (0, 0), ram, inputs: [9, 8, 7, 6], di1: 0 },
                        stack: free.0,
                        prog: free.1,
                        int_enabled: true,
                        run_edges: 110,
                        cont: false,
                    });
                }
            }
        }
    }
    // the same programs with the continue key pressed as soon as they stop (states "just continued")
    let with_stop: Vec<Prog> = v.iter().filter(|p| p.name.split(" ; ").any(|n| n == "STOP")).cloned().collect();
    for mut p in with_stop {
        p.cont = true;
        p.name = format!("{} [continue]", p.name);
        v.push(p);
    }
    // supervised programs that halt by SP / PC rule in the middle of an instruction
    for (name, code, stack, prog, sp) in [
        ("push into band", vec![0x10u8, 0x10, 0x10, 0x20, 0xFB], Stacksize::_16, Programsize::Size(255), 0xE1u8),
        ("call recursion", vec![0x28, 0x10], Stacksize::_32, Programsize::Size(255), 0xD2),
        ("run past limit", vec![0x02, 0x02, 0x02, 0x02], Stacksize::_16, Programsize::Size(0x12), 0xE0),
        ("pop into 0xF0", vec![0x14, 0x14, 0x14], Stacksize::_0, Programsize::Size(255), 0xEE),
    ] {
        let mut ram = [0x02u8; 240];
        sw::place(&mut ram, 0x10, &code);
        v.push(Prog {
            name: name.into(),
            case: Case { cpu: Cpu { r: [1, 2, 3], pc: 0x10, fr: 0, sp }, scratch: (0, 0), ram, inputs: [0; 4], di1: 0 },
            stack,
            prog,
            int_enabled: false,
            run_edges: 120,
            cont: false,
        });
    }
    v
}

/// All 256 bytes at the PC, and all 256 second bytes after 0xF0..0xFF.
fn opcode_progs() -> Vec<(Prog, bool)> {
    let mut v = vec![];
    for b in 0..=255u8 {
        let mut ram = [0x02u8; 240];
        sw::place(&mut ram, 0x10, &[b, 0x20, 0x21, 0x02]);
        v.push((
            Prog {
                name: format!("first byte {:#04x}", b),
                case: Case { cpu: Cpu { r: [0x40, 0x41, 0x42], pc: 0x10, fr: 0, sp: 0xE0 }, scratch: (0, 0), ram, inputs: [0; 4], di1: 0 },
                stack: Stacksize::_0,
                prog: Programsize::Size(255),
                int_enabled: false,
                run_edges: 0,
                cont: false,
            },
            defined_first(b),
        ));
        for b1 in [0xF0u8, 0xF6, 0xFB, 0xFD] {
            let mut ram = [0x02u8; 240];
            let code: Vec<u8> = if b1 == 0xFB { vec![b1, 0x33, b, 0x50, 0x02] } else { vec![b1, b, 0x50, 0x02] };
            sw::place(&mut ram, 0x10, &code);
            v.push((
                Prog {
                    name: format!("second byte {:#04x} after {:#04x}", b, b1),
                    case: Case { cpu: Cpu { r: [0x40, 0x41, 0x42], pc: 0x10, fr: 0, sp: 0xE0 }, scratch: (0, 0), ram, inputs: [0; 4], di1: 0 },
                    stack: Stacksize::_0,
                    prog: Programsize::Size(255),
                    int_enabled: false,
                    run_edges: 0,
                    cont: false,
                },
                defined_second(b),
            ));
        }
    }
    v
}

/// Child mode: perform the real assembly steps for one replay line, print DONE. The parent kills us
/// if the call never returns.
pub fn child(line: &str) {
    let (p, e, int, k) = parse_line(line);
    let mut m = run_to(&p, e);
    if int {
        m.trigger_key_interrupt();
    }
    m.set_step_mode(StepMode::Assembly);
    for _ in 0..k {
        m.trigger_key_clock();
    }
    println!("DONE");
}

/// Run the real call in a child process; true = returned, false = had to be killed.
fn confirm_in_child(line: &str, timeout_ms: u64) -> Option<bool> {
    let exe = std::env::current_exe().ok()?;
    let mut ch = std::process::Command::new(exe)
        .arg("C11")
        .arg("--child")
        .arg(line)
        .stdout(std::process::Stdio::piped())
        .stderr(std::process::Stdio::null())
        .spawn()
        .ok()?;
    let t0 = std::time::Instant::now();
    loop {
        match ch.try_wait() {
            Ok(Some(_)) => return Some(true),
            Ok(None) => {
                if t0.elapsed().as_millis() as u64 > timeout_ms {
                    let _ = ch.kill();
                    let _ = ch.wait();
                    return Some(false);
                }
                std::thread::sleep(std::time::Duration::from_millis(10));
            }
            Err(_) => return None,
        }
    }
}

#[derive(Default)]
struct Out {
    states: u64,
    transitions: u64,
    hist: BTreeMap<u32, u64>,
    bad: BTreeMap<String, Vec<(String, String)>>,
    keys: HashSet<u64>,
}

fn explore(p: &Prog, out: &mut Out) {
    let r = mc::catch(|| {
        let mut local = Out::default();
        let mut m = p.machine();
        for e in 0..=p.run_edges {
            if p.cont && m.state() == State::Stopped {
                m.trigger_key_continue();
            }
            for int in [false, true] {
                if int && !p.int_enabled {
                    continue;
                }
                let mut s = m.clone();
                if int {
                    s.trigger_key_interrupt();
                }
                for mode in [StepMode::Real, StepMode::Assembly] {
                    // mostly one step; three steps at some states; 300 steps in a row from the start state
                    let k = if e == 0 && !int { 300 } else if e % 7 == 3 { 3 } else { 1 };
                    mc::watch::progress(|| p.line(e, int, k));
                    s.set_step_mode(mode);
                    local.states += 1;
                    match check_state(&s, k) {
                        Ok((n, hang)) => {
                            local.transitions += n as u64 + 1;
                            *local.hist.entry(n.min(600) / 10 * 10).or_default() += 1;
                            if let Some((addr, ir)) = hang {
                                let key = if stuck_on_undefined(addr, ir) { "hang-predicted/undefined-opcode" } else { "hang-predicted/defined-opcode" };
                                let e2 = local.bad.entry(key.into()).or_default();
                                if e2.len() < 3 {
                                    e2.push((p.line(e, int, k), format!("[{}] from edge {} the twin is stuck at addr={:#05x} ir={:#04x}", p.name, e, addr, ir)));
                                }
                            }
                        }
                        Err((key, what)) => {
                            let e2 = local.bad.entry(key).or_default();
                            if e2.len() < 3 {
                                e2.push((p.line(e, int, k), format!("[{} @edge {} int={} mode={:?}] {}", p.name, e, int, mode, what)));
                            }
                        }
                    }
                }
            }
            m.raw_mut().trigger_clock_edge();
        }
        local
    });
    mc::watch::idle();
    match r {
        Ok(l) => {
            out.states += l.states;
            out.transitions += l.transitions;
            for (k, v) in l.hist {
                *out.hist.entry(k).or_default() += v;
            }
            for (k, v) in l.bad {
                let e = out.bad.entry(k).or_default();
                for c in v {
                    if e.len() < 3 {
                        e.push(c);
                    }
                }
            }
        }
        Err(pi) => {
            out.bad.entry(format!("panic/{}", pi.file())).or_default().push((p.line(0, false, 1), format!("[{}] panic at {}: {}", p.name, pi.site(), pi.msg)));
        }
    }
    let _ = &out.keys;
}

pub fn run() {
    let args: Vec<String> = std::env::args().collect();
    if args.get(2).map(|s| s.as_str()) == Some("--child") {
        child(&args[3]);
        return;
    }
    let mut ctx = Ctx::from_args("model_checking");
    if let Some(f) = ctx.replay_file.clone() {
        let text = std::fs::read_to_string(&f).expect("replay file");
        let line = text.lines().next().unwrap_or("").to_string();
        let (p, e, int, k) = parse_line(&line);
        let mut m = run_to(&p, e);
        if int {
            m.trigger_key_interrupt();
        }
        match check_state(&m, k) {
            Ok((n, None)) => println!("step equals {} clock edges", n),
            Ok((_, Some(_))) => {
                let ret = confirm_in_child(&line, 2000);
                println!("specification twin never reaches a boundary; real call returned in child: {:?}", ret);
                if ret == Some(false) {
                    ctx.violation("replay/step-never-returns", "the assembly step does not return", line);
                }
            }
            Err((key, what)) => {
                println!("{}: {}", key, what);
                ctx.violation(key, what, line);
            }
        }
        ctx.finish();
    }
    let quick = ctx.quick();
    let progs = corpus(quick);
    let outs = mc::par_ranges(progs.len(), 256, |r| {
        let mut out = Out::default();
        for i in r {
            explore(&progs[i], &mut out);
        }
        out
    });
    let mut all = Out::default();
    for o in outs {
        all.states += o.states;
        all.transitions += o.transitions;
        for (k, v) in o.hist {
            *all.hist.entry(k).or_default() += v;
        }
        for (k, v) in o.bad {
            let e = all.bad.entry(k).or_default();
            for c in v {
                if e.len() < 3 {
                    e.push(c);
                }
            }
        }
    }
    // termination over all opcode bytes
    let ops = opcode_progs();
    let res = mc::par_map(&ops, |(p, defined)| {
        mc::watch::progress(|| p.line(0, false, 3));
        let r = mc::catch(|| {
            let mut m = p.machine();
            // first step: performs the first fetch (the power-on state is inside the reset pseudo-instruction)
            let mut hangs_at = None;
            let mut steps_ok = 0;
            for step in 1..=3u32 {
                match check_state(&m, 1) {
                    Ok((_, None)) => {
                        steps_ok += 1;
                        m.set_step_mode(StepMode::Assembly);
                        m.trigger_key_clock();
                    }
                    Ok((_, Some((addr, ir)))) => {
                        hangs_at = Some((step, stuck_on_undefined(addr, ir)));
                        break;
                    }
                    Err((k, w)) => return Err((k, w, step)),
                }
            }
            Ok((hangs_at, steps_ok))
        });
        mc::watch::idle();
        (p.clone(), *defined, r)
    });
    let mut hang_defined = vec![];
    let mut hang_undefined = vec![];
    let mut nohang_undefined = vec![];
    for (p, defined, r) in res {
        all.states += 3;
        match r {
            Ok(Ok((Some((step, stuck_undef)), _))) => {
                let line = p.line(0, false, step);
                let _ = defined;
                if !stuck_undef {
                    hang_defined.push((line, p.name.clone()));
                } else {
                    hang_undefined.push((line, p.name.clone()));
                }
            }
            Ok(Ok((None, _))) => {
                if !defined {
                    nohang_undefined.push(p.name.clone());
                }
            }
            Ok(Err((k, w, step))) => {
                all.bad.entry(k).or_default().push((p.line(0, false, step), format!("[{}] {}", p.name, w)));
            }
            Err(pi) => {
                all.bad.entry(format!("panic/{}", pi.file())).or_default().push((p.line(0, false, 1), format!("[{}] panic at {}: {}", p.name, pi.site(), pi.msg)));
            }
        }
    }
    if let Some(v) = all.bad.remove("hang-predicted/undefined-opcode") {
        for (l, w) in v {
            hang_undefined.push((l, w));
        }
    }
    if let Some(v) = all.bad.remove("hang-predicted/defined-opcode") {
        for (l, w) in v {
            hang_defined.push((l, w));
        }
    }
    // confirm the predicted hangs against the real call in killable children (a few per class, in parallel)
    let confirm = |cases: &Vec<(String, String)>, n: usize| -> Vec<(String, String, Option<bool>)> {
        let pick: Vec<&(String, String)> = cases.iter().step_by((cases.len() / n.max(1)).max(1)).take(n).collect();
        std::thread::scope(|s| {
            let hs: Vec<_> = pick.iter().map(|(l, nm)| s.spawn(move || (l.clone(), nm.clone(), confirm_in_child(l, 1500)))).collect();
            hs.into_iter().map(|h| h.join().unwrap()).collect()
        })
    };
    let conf_undef = confirm(&hang_undefined, if quick { 4 } else { 12 });
    let conf_def = confirm(&hang_defined, 4);
    let mut confirmed_hangs = 0;
    for (l, nm, r) in &conf_undef {
        match r {
            Some(false) => {
                confirmed_hangs += 1;
                ctx.violation("step-never-returns/undefined-opcode", format!("[{}] assembly step does not return (child killed after 1.5 s)", nm), l.clone());
            }
            Some(true) => ctx.violation("step/returns-without-reaching-a-boundary", format!("[{}] clock-stepping never reaches a boundary from here (no halt either), yet the assembly step returned: it stopped inside an instruction", nm), l.clone()),
            None => ctx.machinery_error("could not run the confirmation child"),
        }
    }
    for (l, nm, r) in &conf_def {
        match r {
            Some(false) => ctx.violation("step-never-returns/defined-opcode", format!("[{}] assembly step does not return on a defined opcode", nm), l.clone()),
            Some(true) => ctx.violation("machinery/prediction-mismatch", format!("[{}] twin predicted a hang but the real call returned", nm), l.clone()),
            None => ctx.machinery_error("could not run the confirmation child"),
        }
    }
    if !nohang_undefined.is_empty() {
        // undefined bytes that do complete would contradict C09's sets, not C11; reported as information only
        ctx.set("undefined_bytes_that_returned", Json::Arr(nohang_undefined.iter().take(8).map(|s| Json::Str(s.clone())).collect()));
    }
    for (k, cases) in &all.bad {
        for (l, w) in cases.iter().take(3) {
            ctx.violation(k.clone(), w.clone(), l.clone());
        }
    }
    ctx.set("states", all.states);
    ctx.set("transitions", all.transitions);
    ctx.set("traces_validated_against_impl", all.states);
    ctx.set("evaluations", all.states);
    ctx.set("distinct_nontrivial", all.hist.len() as u64 + hang_undefined.len() as u64);
    ctx.set("rule", "state = real machine after e clock edges into a corpus program (e = 0..run length), x {interrupt just triggered, not} x {Real, Assembly mode}; at each state one (every 7th: three; from the start state: 300) assembly step(s) on a clone must equal the specification twin clocked edge by edge (whole-Machine equality modulo the mode flag); distinct_nontrivial = distinct step lengths (10-edge buckets) + predicted non-returning opcode cases");
    ctx.set("exhaustive", true);
    ctx.set("bounds", format!("{} corpus programs (all ordered pairs of a 35-instruction alphabet from {} start states, all triples of a {}-instruction alphabet, + the programs containing a STOP once more with the continue key pressed as soon as they stop, + 4 supervised programs), every edge 0..70/110/120; termination: all 256 first bytes and 4 x 256 second bytes, first three steps; twin bound 4096 edges with exact state-cycle detection", progs.len(), 3, if quick { 16 } else { 35 }));
    let mut h = Json::obj();
    for (k, v) in &all.hist {
        h.set(&format!("{}-{}", k, k + 9), *v);
    }
    ctx.set("step_length_histogram_edges", h);
    ctx.set("predicted_never_returning_undefined", hang_undefined.len());
    ctx.set("predicted_never_returning_defined", hang_defined.len());
    ctx.set("confirmed_in_child_process", confirmed_hangs);
    ctx.set("distinct_outcomes", all.hist.len());
    for p in progs.iter().step_by((progs.len() / 5).max(1)).take(5) {
        ctx.sample(format!("{} :: {}", p.name, p.line(0, false, 1).chars().take(150).collect::<String>()));
    }
    for (l, nm) in hang_undefined.iter().take(2) {
        ctx.sample(format!("never returns: {} :: {}", nm, l.chars().take(120).collect::<String>()));
    }
    ctx.set("determinism_selftest", {
        let m = progs[0].machine();
        check_state(&m, 1).ok() == check_state(&m, 1).ok()
    });
    ctx.assume("the specification twin (spec_step) is the statement's wording on raw clock edges; a twin that revisits an identical full machine state (or exceeds 4096 edges, > 7x the longest instruction) is taken as 'never reaches a boundary' and only then the real call is moved to a killable child");
    ctx.finish();
}
