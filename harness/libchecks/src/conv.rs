//! Conversions between the reference AST (refmodel::mrasm) and the subject's AST, and source
//! text rendering of reference programs.
use emulator_2a_lib::parser::{
    Asm, Constant, Destination, Instruction, Line, MemAddress, Programsize, Register, RegisterDdi, RegisterDi, Source, Stacksize,
};
use refmodel::mrasm::{RAsm, RConst, RInst, RLine, ROp};

pub fn reg(r: u8) -> Register {
    [Register::R0, Register::R1, Register::R2, Register::R3][(r & 3) as usize]
}
fn konst(c: &RConst) -> Constant {
    match c {
        RConst::Num(n) => Constant::Constant(*n),
        RConst::Label(l) => Constant::Label(l.clone()),
    }
}
fn src(o: &ROp) -> Source {
    match o {
        ROp::Reg(r) => Source::Register(reg(*r)),
        ROp::Di(r) => Source::RegisterDi(RegisterDi(reg(*r))),
        ROp::Ddi(r) => Source::RegisterDdi(RegisterDdi(reg(*r))),
        ROp::MemReg(r) => Source::MemAddress(MemAddress::Register(reg(*r))),
        ROp::MemConst(c) => Source::MemAddress(MemAddress::Constant(konst(c))),
        ROp::Const(c) => Source::Constant(konst(c)),
        other => panic!("conv: {:?} is not a source", other),
    }
}
fn dst(o: &ROp) -> Destination {
    match o {
        ROp::Reg(r) => Destination::Register(reg(*r)),
        ROp::Di(r) => Destination::RegisterDi(RegisterDi(reg(*r))),
        ROp::Ddi(r) => Destination::RegisterDdi(RegisterDdi(reg(*r))),
        ROp::MemReg(r) => Destination::MemAddress(MemAddress::Register(reg(*r))),
        ROp::MemConst(c) => Destination::MemAddress(MemAddress::Constant(konst(c))),
        other => panic!("conv: {:?} is not a destination", other),
    }
}
fn mem(o: &ROp) -> MemAddress {
    match o {
        ROp::MemReg(r) => MemAddress::Register(reg(*r)),
        ROp::MemConst(c) => MemAddress::Constant(konst(c)),
        other => panic!("conv: {:?} is not a memory operand", other),
    }
}
fn r_of(o: &ROp) -> Register {
    match o {
        ROp::Reg(r) => reg(*r),
        other => panic!("conv: {:?} is not a register", other),
    }
}
fn lab(o: &ROp) -> String {
    match o {
        ROp::Label(l) => l.clone(),
        other => panic!("conv: {:?} is not a label", other),
    }
}

pub fn inst(i: &RInst) -> Instruction {
    use Instruction as I;
    let o = &i.ops;
    match i.m {
        ".ORG" => match o[0] { ROp::Num(n) => I::AsmOrigin(n), _ => unreachable!() },
        ".BYTE" => match o[0] { ROp::Num(n) => I::AsmByte(n), _ => unreachable!() },
        ".DB" => match &o[0] { ROp::Bytes(b) => I::AsmDefineBytes(b.clone()), _ => unreachable!() },
        ".DW" => match &o[0] { ROp::Words(w) => I::AsmDefineWords(w.clone()), _ => unreachable!() },
        ".EQU" => match (&o[0], &o[1]) { (ROp::Label(l), ROp::Num(n)) => I::AsmEquals(l.clone(), *n), _ => unreachable!() },
        "*STACKSIZE" => I::AsmStacksize(match o[0] {
            ROp::Stack(0) => Stacksize::_0,
            ROp::Stack(16) => Stacksize::_16,
            ROp::Stack(32) => Stacksize::_32,
            ROp::Stack(48) => Stacksize::_48,
            ROp::Stack(64) => Stacksize::_64,
            _ => Stacksize::NotSet,
        }),
        "*PROGRAMSIZE" => I::AsmProgramsize(match o[0] {
            ROp::Prog(-1) => Programsize::Auto,
            ROp::Prog(-2) => Programsize::NotSet,
            ROp::Prog(n) => Programsize::Size(n as u8),
            _ => unreachable!(),
        }),
        "CLR" => I::Clr(r_of(&o[0])),
        "ADD" => I::Add(r_of(&o[0]), r_of(&o[1])),
        "ADC" => I::Adc(r_of(&o[0]), r_of(&o[1])),
        "SUB" => I::Sub(r_of(&o[0]), r_of(&o[1])),
        "MUL" => I::Mul(r_of(&o[0]), r_of(&o[1])),
        "DIV" => I::Div(r_of(&o[0]), r_of(&o[1])),
        "INC" => I::Inc(r_of(&o[0])),
        "DEC" => I::Dec(src(&o[0])),
        "NEG" => I::Neg(r_of(&o[0])),
        "AND" => I::And(r_of(&o[0]), r_of(&o[1])),
        "OR" => I::Or(r_of(&o[0]), r_of(&o[1])),
        "XOR" => I::Xor(r_of(&o[0]), r_of(&o[1])),
        "COM" => I::Com(r_of(&o[0])),
        "BITS" => I::Bits(dst(&o[0]), src(&o[1])),
        "BITC" => I::Bitc(dst(&o[0]), src(&o[1])),
        "TST" => I::Tst(r_of(&o[0])),
        "CMP" => I::Cmp(dst(&o[0]), src(&o[1])),
        "BITT" => I::Bitt(dst(&o[0]), src(&o[1])),
        "LSR" => I::Lsr(r_of(&o[0])),
        "ASR" => I::Asr(r_of(&o[0])),
        "LSL" => I::Lsl(r_of(&o[0])),
        "RRC" => I::Rrc(r_of(&o[0])),
        "RLC" => I::Rlc(r_of(&o[0])),
        "MOV" => I::Mov(dst(&o[0]), src(&o[1])),
        "LDC" => I::LdConstant(r_of(&o[0]), match &o[1] { ROp::Const(c) => konst(c), _ => unreachable!() }),
        "LDM" => I::LdMemAddress(r_of(&o[0]), mem(&o[1])),
        "ST" => I::St(mem(&o[0]), r_of(&o[1])),
        "PUSH" => I::Push(r_of(&o[0])),
        "POP" => I::Pop(r_of(&o[0])),
        "PUSHF" => I::PushF,
        "POPF" => I::PopF,
        "LDSP" => I::Ldsp(src(&o[0])),
        "LDFR" => I::Ldfr(src(&o[0])),
        "JMP" => I::Jmp(lab(&o[0])),
        "JCS" => I::Jcs(lab(&o[0])),
        "JCC" => I::Jcc(lab(&o[0])),
        "JZS" => I::Jzs(lab(&o[0])),
        "JZC" => I::Jzc(lab(&o[0])),
        "JNS" => I::Jns(lab(&o[0])),
        "JNC" => I::Jnc(lab(&o[0])),
        "JR" => I::Jr(lab(&o[0])),
        "CALL" => I::Call(lab(&o[0])),
        "RET" => I::Ret,
        "RETI" => I::RetI,
        "STOP" => I::Stop,
        "NOP" => I::Nop,
        "EI" => I::Ei,
        "DI" => I::Di,
        other => panic!("conv: mnemonic {}", other),
    }
}

pub fn line(l: &RLine) -> Line {
    match l {
        RLine::Empty(c) => Line::Empty(c.clone()),
        RLine::Label(n, c) => Line::Label(n.clone(), c.clone()),
        RLine::Inst(i, c) => Line::Instruction(inst(i), c.clone()),
    }
}

pub fn asm(a: &RAsm) -> Asm {
    Asm { comment_after_shebang: a.header_comment.clone(), lines: a.lines.iter().map(line).collect() }
}

pub fn stack_code(s: Stacksize) -> i32 {
    match s {
        Stacksize::_0 => 0,
        Stacksize::_16 => 16,
        Stacksize::_32 => 32,
        Stacksize::_48 => 48,
        Stacksize::_64 => 64,
        Stacksize::NotSet => -1,
    }
}
pub fn prog_code(p: Programsize) -> i32 {
    match p {
        Programsize::Size(n) => n as i32,
        Programsize::Auto => -1,
        Programsize::NotSet => -2,
    }
}
