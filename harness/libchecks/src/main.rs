//! Drivers for the library-level properties. Usage: `libchecks <ID> [--tier quick|thorough] [--replay FILE]`.
mod c01;
mod c02;
mod c03;
mod c04;
mod c05;
mod c06;
mod c07;
mod c08;
mod c09;
mod c10;
mod c11;
mod c12;
mod c13;
mod c14;
mod c16;
mod conv;
mod corpus;
mod isa_sweep;
mod mach;

/// A logger that accepts every level and formats every record into nothing: with the maximum level
/// raised to Trace the arguments of the subject's `trace!`/`debug!` lines are evaluated and formatted
/// (as they are under `2a-emulator -vvvv`); the level is Off outside the passes that ask for it.
struct Sink;
impl log::Log for Sink {
    fn enabled(&self, _: &log::Metadata) -> bool {
        true
    }
    fn log(&self, record: &log::Record) {
        use std::io::Write;
        let _ = write!(std::io::sink(), "{}", record.args());
    }
    fn flush(&self) {}
}
static SINK: Sink = Sink;

/// Run `f` with every log line of the subject evaluated.
pub fn with_trace_logging<T>(f: impl FnOnce() -> T) -> T {
    log::set_max_level(log::LevelFilter::Trace);
    let r = f();
    log::set_max_level(log::LevelFilter::Off);
    r
}

fn main() {
    mc::install_silent_hook();
    let _ = log::set_logger(&SINK);
    log::set_max_level(log::LevelFilter::Off);
    let id = std::env::args().nth(1).unwrap_or_default();
    let r = std::panic::catch_unwind(|| dispatch(&id));
    if r.is_err() {
        if mc::panics::escaped_subject_panic().is_some() {
            mc::panics::report_escaped_subject_panic(&id);
        }
        println!("MACHINERY-ERROR property={} the harness itself panicked (see stderr)", id);
        std::process::exit(2);
    }
}

fn dispatch(id: &str) {
    match id {
        "C01" => c01::run(c01::Mode::C01),
        "C02" => c02::run(),
        "C03" => c03::run(),
        "C04" => c04::run(),
        "C05" => c05::run(),
        "C06" => c06::run(),
        "C07" => c07::run(),
        "C08" => c08::run(),
        "C09" => c09::run(),
        "C10" => c10::run(),
        "C11" => c11::run(),
        "C16" => c16::run(),
        "C12" => c12::run(),
        "C13" => c13::run(),
        "C14" => c14::run(),
        "C15" => c01::run(c01::Mode::C15),
        _ => {
            eprintln!("MACHINERY-ERROR unknown property id '{}'", id);
            std::process::exit(2)
        }
    }
}
