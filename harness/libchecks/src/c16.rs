//! C16 — format -> parse round trip over the accepted programs of the enumerated families.
use crate::c03::{case_line, unesc};
use crate::corpus::{self, HDR};
use emulator_2a_lib::parser::{Asm, AsmParser, Line};
use mc::{Ctx, Json};
use std::collections::BTreeMap;

#[derive(Debug)]
pub enum Verdict {
    NotAccepted,
    Ok { lines: usize },
    Bad(String, String),
}

fn kind(l: &Line) -> String {
    match l {
        Line::Empty(_) => "empty".into(),
        Line::Label(..) => "label".into(),
        Line::Instruction(i, _) => format!("{:?}", i).split(|c: char| !c.is_ascii_alphanumeric()).next().unwrap_or("?").to_string(),
    }
}

pub fn round_trip(src: &str) -> Verdict {
    let asm: Asm = match mc::catch(|| AsmParser::parse(src)) {
        Ok(Ok(a)) => a,
        Ok(Err(_)) => return Verdict::NotAccepted,
        Err(p) => return Verdict::Bad(format!("panic/{}", p.file()), format!("parse panicked at {}: {}", p.site(), p.msg)),
    };
    // whole program
    let text = match mc::catch(|| format!("{}", asm)) {
        Ok(t) => t,
        Err(p) => return Verdict::Bad(format!("panic/{}", p.file()), format!("Display for Asm panicked at {}: {}", p.site(), p.msg)),
    };
    match mc::catch(|| AsmParser::parse(&text)) {
        Ok(Ok(back)) => {
            if back != asm {
                let i = (0..asm.lines.len().max(back.lines.len())).find(|&i| asm.lines.get(i) != back.lines.get(i));
                let key = match i {
                    Some(i) if i >= asm.lines.len() => "asm/extra-line".to_string(),
                    Some(i) => format!("asm/line/{}", kind(&asm.lines[i])),
                    None => "asm/header-comment".to_string(),
                };
                return Verdict::Bad(
                    key,
                    format!(
                        "re-parsed program differs: {} lines -> {} lines; first difference at line {:?}: {:?} vs {:?}; header comment {:?} vs {:?}",
                        asm.lines.len(), back.lines.len(), i, i.and_then(|i| asm.lines.get(i)), i.and_then(|i| back.lines.get(i)), asm.comment_after_shebang, back.comment_after_shebang
                    ),
                );
            }
        }
        Ok(Err(e)) => {
            let pos = match &e {
                emulator_2a_lib::parser::ParserError::InvalidSyntax(pe) => format!("{:?}", pe.line_col),
                other => format!("{}", other),
            };
            let first_line_bad = pos.contains("Pos((1,") || pos.contains("Span((1,");
            return Verdict::Bad(
                if first_line_bad { "asm/rendering-rejected/header".to_string() } else { "asm/rendering-rejected/body".to_string() },
                format!("the rendering of an accepted program is rejected by the parser at {}; rendering starts {:?}", pos, text.chars().take(60).collect::<String>()),
            );
        }
        Err(p) => return Verdict::Bad(format!("panic/{}", p.file()), format!("parse of the rendering panicked at {}: {}", p.site(), p.msg)),
    }
    // every line on its own (the form used by the program pane and the byte-code listing)
    // (this loop re-parses a program per line: in texts of hundreds of lines a line equal to one already
    // judged is skipped, except the last one)
    let mut judged: std::collections::HashSet<String> = Default::default();
    let long = asm.lines.len() > 300;
    for (i, l) in asm.lines.iter().enumerate() {
        if long && i + 1 != asm.lines.len() && !judged.insert(format!("{:?}", l)) {
            continue;
        }
        let lt = match mc::catch(|| format!("{}", l)) {
            Ok(t) => t,
            Err(p) => return Verdict::Bad(format!("panic/{}", p.file()), format!("Display for Line panicked at {}: {}", p.site(), p.msg)),
        };
        // a rendered line needs the definitions it refers to: keep the other lines as they were written
        let mut prog = String::from(HDR);
        for (j, m) in asm.lines.iter().enumerate() {
            if j == i {
                prog.push_str(&lt);
            } else {
                match m {
                    Line::Label(n, _) => prog.push_str(&format!("{}:", n)),
                    Line::Instruction(emulator_2a_lib::parser::Instruction::AsmEquals(n, v), _) => prog.push_str(&format!(".EQU {} {}", n, v)),
                    _ => {}
                }
            }
            if j + 1 < asm.lines.len() {
                prog.push('\n');
            }
        }
        match mc::catch(|| AsmParser::parse(&prog)) {
            Ok(Ok(back)) => {
                if back.lines.get(i) != Some(l) {
                    return Verdict::Bad(format!("line/{}", kind(l)), format!("line {:?} renders as {:?} and re-parses as {:?}", l, lt, back.lines.get(i)));
                }
            }
            Ok(Err(e)) => return Verdict::Bad(format!("line-rejected/{}", kind(l)), format!("line {:?} renders as {:?}, which the parser rejects: {}", l, lt, format!("{}", e).lines().last().unwrap_or(""))),
            Err(p) => return Verdict::Bad(format!("panic/{}", p.file()), format!("parse of a rendered line panicked at {}: {}", p.site(), p.msg)),
        }
    }
    Verdict::Ok { lines: asm.lines.len() }
}

/// Value / comment / label families specific to the round trip.
fn value_programs() -> Vec<String> {
    let mut v = vec![];
    for n in 0..=255u32 {
        for tok in [format!("{}", n), format!("0x{:X}", n), format!("0x{:02x}", n), format!("0b{:b}", n), format!("00{}", n)] {
            v.push(format!("{} LD R0, {}\n ST ({}), R1\n .DB {}, {}\n .ORG {}\n", HDR, tok, tok, tok, tok, n.min(240)));
            v.push(format!("{} MOV ({}), {}\n CMP R2, ({})\n LDSP {}\n .BYTE {}\n", HDR, tok, tok, tok, tok, n.min(100)));
        }
        v.push(format!("{}.EQU c {}\n*PROGRAMSIZE {}\n LD R0, c\n", HDR, n, n));
    }
    for w in [0u32, 1, 255, 256, 257, 4095, 4096, 32767, 32768, 65534, 65535] {
        for tok in [format!("{}", w), format!("0x{:X}", w), format!("0b{:b}", w)] {
            v.push(format!("{} .DW {}\n .DW {}, {}, 0\n", HDR, tok, tok, tok));
        }
    }
    let comments = ["", " ", "c", " c ", ";c", "c;", " ; c ; ", "a;b", "a ; b", "\tc\t", "é 語 ✓", "0123456789012345678901234567890123456789", "#! mrasm", ":", "NOP", "x  y"];
    for c in comments {
        v.push(format!("{};{}\n NOP;{}\nL:;{}\n;{}\n JR L ;{}\n .DB 1 ;{}", HDR.trim_end().to_string() + " ", c, c, c, c, c, c));
        v.push(format!("#! mrasm;{}\n", c));
    }
    for len in [1usize, 2, 24, 25, 26, 29, 30, 31, 60] {
        for (ci, base) in ["a", "A", "aB"].iter().enumerate() {
            let name: String = base.chars().cycle().take(len).collect();
            let _ = ci;
            v.push(format!("{}{}:\n JR {}\n LD R0, ({})\n MOV ({}), {}\n BITS ({}), {} ; c\n.EQU {}_ 5\n", HDR, name, name, name, name, name, name, name, name));
            v.push(format!("{}{}: ; comment\n CALL {}\n", HDR, name, name.to_uppercase()));
        }
    }
    v
}

#[derive(Default)]
struct Out {
    n: u64,
    accepted: u64,
    lines: u64,
    bad: BTreeMap<String, (u64, Vec<(String, String)>)>,
}

fn run_family(name: &str, inputs: &[String], fam: &mut BTreeMap<String, Json>, all: &mut Out) {
    let outs = mc::par_ranges(inputs.len(), 256, |r| {
        let mut o = Out::default();
        for i in r {
            o.n += 1;
            mc::watch::progress(|| case_line(&inputs[i]));
            match round_trip(&inputs[i]) {
                Verdict::NotAccepted => {}
                Verdict::Ok { lines } => {
                    o.accepted += 1;
                    o.lines += lines as u64;
                }
                Verdict::Bad(k, w) => {
                    o.accepted += 1;
                    let e = o.bad.entry(k).or_default();
                    e.0 += 1;
                    if e.1.len() < 4 {
                        e.1.push((case_line(&inputs[i]), w));
                    }
                }
            }
        }
        o
    });
    let mut f = Out::default();
    for o in outs {
        f.n += o.n;
        f.accepted += o.accepted;
        f.lines += o.lines;
        for (k, (c, cases)) in o.bad {
            let e = all.bad.entry(k).or_default();
            e.0 += c;
            for cs in cases {
                if e.1.len() < 4 {
                    e.1.push((cs.0, format!("[{}] {}", name, cs.1)));
                }
            }
        }
    }
    let mut j = Json::obj();
    j.set("inputs", f.n).set("accepted_and_round_tripped", f.accepted).set("lines_round_tripped", f.lines);
    fam.insert(name.to_string(), j);
    all.n += f.n;
    all.accepted += f.accepted;
    all.lines += f.lines;
}

pub fn run() {
    let mut ctx = Ctx::from_args("exploration");
    if let Some(f) = ctx.replay_file.clone() {
        let text = std::fs::read_to_string(&f).expect("replay file");
        let l = text.lines().next().unwrap_or("");
        let src = unesc(l.strip_prefix("src ").unwrap_or(l));
        println!("program: {:?}", src);
        if let Ok(a) = AsmParser::parse(&src) {
            println!("rendering: {:?}", format!("{}", a));
        }
        let v = round_trip(&src);
        println!("{:?}", v);
        if let Verdict::Bad(k, w) = v {
            ctx.violation(k, w, text.clone());
        }
        ctx.finish();
    }
    let quick = ctx.quick();
    let mut fam = BTreeMap::new();
    let mut all = Out::default();
    // quick: every family in full except the multi-line product (every 2nd / 6th shape);
    // thorough: the full multi-line product, all short strings, mutated repository programs, C02's layout programs
    let sentences: Vec<String> = corpus::sentence_lines(true).iter().map(|l| corpus::wrap(l)).collect();
    run_family("sentences", &sentences, &mut fam, &mut all);
    run_family("line-shapes", &corpus::shape_programs(), &mut fam, &mut all);
    run_family("label-rules", &corpus::label_programs(), &mut fam, &mut all);
    run_family("character-classes", &corpus::char_class_programs(), &mut fam, &mut all);
    run_family("long-texts", &corpus::long_programs(), &mut fam, &mut all);
    let vals = value_programs();
    run_family("values-comments-labels", &vals, &mut fam, &mut all);
    let repo: Vec<String> = corpus::repo_programs().into_iter().map(|p| p.1).collect();
    run_family("repository-programs", &repo, &mut fam, &mut all);
    // two- and three-line programs out of the accepted single lines (reduced shapes)
    let shapes = crate::c02::shapes(false);
    let mut multi = vec![];
    let (st, st2) = if quick { (2, 6) } else { (1, 1) };
    for (i, a) in shapes.iter().enumerate().step_by(st) {
        for (j, b) in shapes.iter().enumerate().step_by(st2) {
            multi.push(format!("{}LBL:\n {} ; first\n.EQU lbl2 7\n{}", HDR, a, b));
            if (i + j) % 5 == 0 {
                multi.push(format!("{}LBL: ; l\n {}\n\n {}\n.EQU lbl2 7 ; e\n; tail", HDR, b, a));
            }
        }
    }
    run_family("multi-line", &multi, &mut fam, &mut all);
    if !quick {
        run_family("short-strings", &corpus::short_strings(5), &mut fam, &mut all);
        let mut muts = vec![];
        for src in repo.iter().filter(|s| s.len() < 900) {
            muts.extend(corpus::mutations(src, &corpus::MUT_VOCAB));
        }
        run_family("mutated-repository-programs", &muts, &mut fam, &mut all);
        let lay = crate::c02::layout_programs(2, &crate::c02::shapes(true));
        run_family("shapes-after-directive-prefixes", &lay, &mut fam, &mut all);
        run_family("limit-directives", &crate::c02::limit_programs(), &mut fam, &mut all);
    }
    for (k, (n, cases)) in &all.bad {
        for (l, w) in cases.iter().take(3) {
            ctx.violation(k.clone(), format!("{} ({} programs in class)", w, n), l.clone());
        }
    }
    ctx.set("evaluations", all.n);
    ctx.set("distinct_nontrivial", all.accepted);
    ctx.set("rule", "every enumerated text the parser accepts is rendered with Display (whole Asm, and each Line on its own inside a program that keeps the definitions) and parsed again; the result must be the identical Asm / Line (PartialEq); distinct_nontrivial = accepted texts that went through the round trip");
    ctx.set("exhaustive", true);
    ctx.set("bounds", "C03's sentence / line-shape / label-rule families; all 256 byte values in 5 spellings through 10 operand positions; word boundary values in 3 bases; 16 comment strings in every comment position incl. the header; labels of length 1..60 in 3 letter cases; 2-3 line programs out of the reduced instruction shapes; long texts (up to 20 000 lines); the repository's programs; thorough: all short strings, mutated repository programs, C02's layout programs");
    ctx.set("lines_round_tripped", all.lines);
    let mut fj = Json::obj();
    for (k, v) in fam {
        fj.set(&k, v);
    }
    ctx.set("families", fj);
    ctx.set("distinct_outcomes", all.bad.len() + 1);
    ctx.sample(vals[100].clone());
    ctx.sample(multi[multi.len() / 2].clone());
    if let Ok(a) = AsmParser::parse(&multi[3]) {
        ctx.sample(format!("rendering: {}", format!("{}", a)));
    }
    ctx.set("determinism_selftest", format!("{:?}", round_trip(&vals[9])) == format!("{:?}", round_trip(&vals[9])));
    ctx.assume("only texts the parser accepts are judged (their AST is what the parser built); equality is derived PartialEq on Asm");
    ctx.finish();
}
