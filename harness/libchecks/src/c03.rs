//! C03 — the parser accepts exactly mrasm, builds the right AST, never panics.
//! Differential check of `AsmParser::parse` against REF-PARSE over fully enumerated families.
use crate::conv;
use crate::corpus;
use emulator_2a_lib::parser::{Asm, AsmParser, ParserError};
use mc::{Ctx, Json};
use refmodel::mrasm::{self, RErr};
use std::collections::BTreeMap;

#[derive(Debug, Clone, PartialEq, Eq)]
pub enum Class {
    Accept,
    Syntax,
    Undefined,
    TooMany,
}

pub fn real_parse(input: &str) -> Result<Result<Asm, ParserError>, mc::PanicInfo> {
    mc::catch(|| {
        let r = AsmParser::parse(input);
        // an error must also be printable (the CLI and the TUI show it) without a panic
        if let Err(e) = &r {
            let _ = format!("{}", e);
        }
        r
    })
}

/// Judge one input. None = agreement.
pub fn judge(input: &str) -> (Class, Option<(String, String)>) {
    let reference = match mc::catch(|| mrasm::parse(input)) {
        Ok(r) => r,
        Err(p) => return (Class::Syntax, Some(("machinery/ref-parse-panic".into(), format!("REF-PARSE panicked at {}: {}", p.site(), p.msg)))),
    };
    let real = match real_parse(input) {
        Ok(r) => r,
        Err(p) => {
            return (
                Class::Syntax,
                Some((format!("panic/{}", p.file()), format!("AsmParser::parse panicked at {}: {} (REF-PARSE says {:?})", p.site(), p.msg, reference.as_ref().map(|_| "accept").map_err(|e| e.clone())))),
            )
        }
    };
    match (&real, &reference) {
        (Ok(a), Ok(r)) => {
            let exp = conv::asm(r);
            if *a != exp {
                let idx = (0..a.lines.len().max(exp.lines.len())).find(|&i| a.lines.get(i) != exp.lines.get(i));
                let what = match idx {
                    Some(i) => format!("line {}: expected {:?} observed {:?}", i, exp.lines.get(i), a.lines.get(i)),
                    None => format!("header comment: expected {:?} observed {:?}", exp.comment_after_shebang, a.comment_after_shebang),
                };
                let kind = match idx.and_then(|i| r.lines.get(i)) {
                    Some(mrasm::RLine::Inst(i, _)) => i.m.to_string(),
                    Some(mrasm::RLine::Label(..)) => "label".into(),
                    Some(mrasm::RLine::Empty(_)) => "empty".into(),
                    None => "line-count".into(),
                };
                return (Class::Accept, Some((format!("ast/{}", kind), what)));
            }
            (Class::Accept, None)
        }
        (Ok(_), Err(e)) => (Class::Accept, Some(("accept/accepts-what-the-language-rejects".into(), format!("parser accepted, reference rejects with {:?}", e)))),
        (Err(e), Ok(_)) => (
            class_of(e),
            Some(("accept/rejects-a-valid-program".into(), format!("parser rejected ({}) a program of the language", short_err(e)))),
        ),
        (Err(e), Err(r)) => {
            let c = class_of(e);
            let ok = match r {
                RErr::Syntax => c == Class::Syntax,
                RErr::UndefinedLabels(_) => c == Class::Undefined,
                RErr::TooManyLabels => c == Class::TooMany,
                RErr::TooManyAndUndefined => c == Class::TooMany || c == Class::Undefined,
            };
            if ok {
                (c, None)
            } else {
                (c.clone(), Some(("error-class".into(), format!("error class expected {:?} observed {:?}", r, c))))
            }
        }
    }
}

fn class_of(e: &ParserError) -> Class {
    match e {
        ParserError::InvalidSyntax(_) => Class::Syntax,
        ParserError::UndefinedLabels(_) => Class::Undefined,
        ParserError::TooManyLabels => Class::TooMany,
    }
}

fn short_err(e: &ParserError) -> String {
    match e {
        ParserError::InvalidSyntax(p) => format!("syntax error at {:?}", p.line_col),
        ParserError::UndefinedLabels(l) => format!("undefined labels {:?}", l),
        ParserError::TooManyLabels => "too many labels".into(),
    }
}

fn esc(s: &str) -> String {
    s.chars().flat_map(|c| c.escape_default()).collect()
}

pub fn unesc(s: &str) -> String {
    let mut out = String::new();
    let mut it = s.chars().peekable();
    while let Some(c) = it.next() {
        if c != '\\' {
            out.push(c);
            continue;
        }
        match it.next() {
            Some('n') => out.push('\n'),
            Some('r') => out.push('\r'),
            Some('t') => out.push('\t'),
            Some('0') => out.push('\0'),
            Some('\\') => out.push('\\'),
            Some('\'') => out.push('\''),
            Some('"') => out.push('"'),
            Some('u') => {
                let mut hex = String::new();
                if it.next() == Some('{') {
                    for h in it.by_ref() {
                        if h == '}' {
                            break;
                        }
                        hex.push(h);
                    }
                }
                if let Some(ch) = u32::from_str_radix(&hex, 16).ok().and_then(char::from_u32) {
                    out.push(ch);
                }
            }
            Some(o) => out.push(o),
            None => {}
        }
    }
    out
}

pub fn case_line(src: &str) -> String {
    format!("src {}", esc(src))
}

#[derive(Default)]
struct Out {
    n: u64,
    classes: BTreeMap<String, u64>,
    bad: BTreeMap<String, (u64, Vec<(String, String)>)>,
}

fn run_family(name: &str, inputs: &[String], out_all: &mut BTreeMap<String, (u64, u64)>, bad_all: &mut BTreeMap<String, (u64, Vec<(String, String)>)>, classes_all: &mut BTreeMap<String, u64>) {
    let outs = mc::par_ranges(inputs.len(), 256, |r| {
        let mut o = Out::default();
        for i in r {
            o.n += 1;
            mc::watch::progress(|| case_line(&inputs[i]));
            let (c, v) = judge(&inputs[i]);
            *o.classes.entry(format!("{:?}", c)).or_default() += 1;
            if let Some((k, w)) = v {
                let e = o.bad.entry(k).or_default();
                e.0 += 1;
                if e.1.len() < 4 {
                    e.1.push((case_line(&inputs[i]), w));
                }
            }
        }
        o
    });
    let mut n = 0;
    let mut acc = 0;
    for o in outs {
        n += o.n;
        acc += o.classes.get("Accept").cloned().unwrap_or(0);
        for (k, v) in o.classes {
            *classes_all.entry(k).or_default() += v;
        }
        for (k, (cnt, cases)) in o.bad {
            let e = bad_all.entry(k).or_default();
            e.0 += cnt;
            for c in cases {
                if e.1.len() < 4 {
                    e.1.push((c.0, format!("[{}] {}", name, c.1)));
                }
            }
        }
    }
    out_all.insert(name.to_string(), (n, acc));
}

pub fn run() {
    let mut ctx = Ctx::from_args("exploration");
    if let Some(f) = ctx.replay_file.clone() {
        let text = std::fs::read_to_string(&f).expect("replay file");
        let l = text.lines().next().unwrap_or("");
        let src = unesc(l.strip_prefix("src ").unwrap_or(l));
        println!("input: {:?}", src);
        println!("reference: {:?}", mrasm::parse(&src));
        println!("parser:    {:?}", real_parse(&src).map(|r| r.map_err(|e| short_err(&e))));
        if let (_, Some((k, w))) = judge(&src) {
            ctx.violation(k, w, text.clone());
        }
        ctx.finish();
    }
    let quick = ctx.quick();
    let mut fam: BTreeMap<String, (u64, u64)> = BTreeMap::new();
    let mut bad: BTreeMap<String, (u64, Vec<(String, String)>)> = BTreeMap::new();
    let mut classes: BTreeMap<String, u64> = BTreeMap::new();
    // (a) sentences
    let lines = corpus::sentence_lines(!quick);
    let sentences: Vec<String> = lines.iter().map(|l| corpus::wrap(l)).collect();
    run_family("a:sentences", &sentences, &mut fam, &mut bad, &mut classes);
    // (b) shapes
    let shapes = corpus::shape_programs();
    run_family("b:line-shapes", &shapes, &mut fam, &mut bad, &mut classes);
    // (d) labels
    let labels = corpus::label_programs();
    run_family("d:label-rules", &labels, &mut fam, &mut bad, &mut classes);
    let cc = corpus::char_class_programs();
    run_family("f:character-classes", &cc, &mut fam, &mut bad, &mut classes);
    let longs = corpus::long_programs();
    run_family("h:long-texts", &longs, &mut fam, &mut bad, &mut classes);
    // (e) short strings
    let shorts = corpus::short_strings(if quick { 4 } else { 5 });
    run_family("e:short-strings", &shorts, &mut fam, &mut bad, &mut classes);
    // thorough: every string of exactly 6 symbols, generated on the fly (191 102 976 inputs)
    if !quick {
        let total = 24u64.pow(6) as usize;
        let outs = mc::par_ranges(total, 4096, |r| {
            let mut o = Out::default();
            for i in r {
                let src = corpus::short_string_at(6, i as u64);
                o.n += 1;
                if i % 4096 == 0 {
                    mc::watch::progress(|| case_line(&src));
                }
                let (c, v) = judge(&src);
                *o.classes.entry(format!("{:?}", c)).or_default() += 1;
                if let Some((k, w)) = v {
                    let e = o.bad.entry(k).or_default();
                    e.0 += 1;
                    if e.1.len() < 4 {
                        e.1.push((case_line(&src), w));
                    }
                }
            }
            o
        });
        let (mut n, mut acc) = (0u64, 0u64);
        for o in outs {
            n += o.n;
            acc += o.classes.get("Accept").cloned().unwrap_or(0);
            for (k, v) in o.classes {
                *classes.entry(k).or_default() += v;
            }
            for (k, (cnt, cases)) in o.bad {
                let e = bad.entry(k).or_default();
                e.0 += cnt;
                for c in cases {
                    if e.1.len() < 4 {
                        e.1.push((c.0, format!("[e:strings-of-length-6] {}", c.1)));
                    }
                }
            }
        }
        fam.insert("e:strings-of-length-6".to_string(), (n, acc));
    }
    // (c) single-token mutations: of the accepted sentences and of the repository's programs
    let mut muts: Vec<String> = vec![];
    let accepted_sentences: Vec<&String> = sentences.iter().filter(|s| matches!(mrasm::parse(s), Ok(_))).collect();
    let step = if quick { 5 } else { 1 };
    for s in accepted_sentences.iter().step_by(step) {
        muts.extend(corpus::mutations(s, &corpus::MUT_VOCAB));
    }
    run_family("c:mutated-sentences", &muts, &mut fam, &mut bad, &mut classes);
    let repo = corpus::repo_programs();
    let mut rmuts: Vec<String> = vec![];
    for (i, (_, src)) in repo.iter().enumerate() {
        rmuts.push(src.clone());
        let small = src.len() < 900;
        if quick && !small {
            continue;
        }
        let vocab: &[&str] = if quick { &corpus::MUT_VOCAB[..16] } else { &corpus::MUT_VOCAB };
        rmuts.extend(corpus::mutations(src, vocab));
    }
    run_family("c:mutated-repository-programs", &rmuts, &mut fam, &mut bad, &mut classes);
    // (g) the second entry point: the binary reads program files itself (`2a-emulator verify FILE`, the
    // same reader serves `run`, the interactive start-up and the `load` command). It must accept exactly
    // what the parser accepts: exit 0 for texts of the language, non-zero for everything else.
    let mut nproc = 0u64;
    match std::env::var("VERIF_BIN") {
        Ok(bin) if std::path::Path::new(&bin).exists() => {
            let dir = std::env::temp_dir().join(format!("verif-c03-{}", std::process::id()));
            let _ = std::fs::create_dir_all(&dir);
            let mut texts: Vec<String> = vec![];
            texts.extend(cc.iter().cloned());
            texts.extend(labels.iter().step_by(if quick { 9 } else { 2 }).cloned());
            texts.extend(sentences.iter().step_by(if quick { 400 } else { 40 }).cloned());
            texts.extend(shorts.iter().step_by(if quick { 997 } else { 97 }).cloned());
            // file-level shapes: byte order mark, CR / CRLF line ends, no final line end, leading blank lines
            for body in [" NOP\n", " LD R0, 5\nL:\n JR L\n", ""] {
                for (pre, nl, fin) in [("\u{feff}", "\n", true), ("", "\r\n", true), ("", "\r", true), ("", "\n", false), ("\n", "\n", true), (" ", "\n", true), ("\u{feff}\u{feff}", "\n", true), ("\u{200b}", "\n", true)] {
                    let mut t = format!("{}#! mrasm\n{}", pre, body).replace('\n', nl);
                    if !fin {
                        while t.ends_with(nl) {
                            t.truncate(t.len() - nl.len());
                        }
                    }
                    texts.push(t);
                }
            }
            // files without any content, or without anything but line ends and blanks
            for t in ["", "\n", "\r\n", " ", "\t\n", "\n\n\n", "\u{feff}", ";", "#"] {
                texts.push(t.to_string());
            }
            texts.sort();
            texts.dedup();
            let files: Vec<(std::path::PathBuf, &String)> = texts.iter().enumerate().map(|(i, t)| (dir.join(format!("p{}.asm", i)), t)).collect();
            for (f, t) in &files {
                let _ = std::fs::write(f, t.as_bytes());
            }
            nproc = files.len() as u64;
            let res = mc::par_map(&files, |(f, t)| {
                let exp_ok = matches!(mrasm::parse(t), Ok(_));
                let out = mc::output_with_timeout(std::process::Command::new(&bin).arg("verify").arg(f), 20);
                match out {
                    Ok(Some(o)) => {
                        let code = o.status.code();
                        if code == Some(101) || code.is_none() {
                            Some(("binary/panic".to_string(), format!("`verify` died ({:?}): {}", code, String::from_utf8_lossy(&o.stderr).lines().find(|l| l.contains("panicked")).unwrap_or("")), case_line(t)))
                        } else if (code == Some(0)) != exp_ok {
                            Some((
                                if exp_ok { "binary/rejects-a-valid-program".to_string() } else { "binary/accepts-what-the-language-rejects".to_string() },
                                format!("`2a-emulator verify` exits with {:?}; the text is {} the language", code, if exp_ok { "in" } else { "not in" }),
                                case_line(t),
                            ))
                        } else {
                            None
                        }
                    }
                    Ok(None) => Some(("binary/never-returns".to_string(), "`verify` did not finish within 20 s".to_string(), case_line(t))),
                    Err(e) => Some(("machinery/spawn".to_string(), format!("cannot run the binary: {}", e), case_line(t))),
                }
            });
            for (k, w, l) in res.into_iter().flatten() {
                let e = bad.entry(k).or_default();
                e.0 += 1;
                if e.1.len() < 4 {
                    e.1.push((l, format!("[g:binary-file-reader] {}", w)));
                }
            }
            // byte strings that are not UTF-8: never a program (no panic, non-zero exit)
            for (i, bytes) in [&b"#! mrasm\n NOP \xff\n"[..], &b"\xff\xfe#! mrasm\n"[..], &b"#! mrasm\n; \xc3\n"[..], &b"\x00\x9f\x92\x96"[..]].iter().enumerate() {
                let f = dir.join(format!("raw{}.asm", i));
                let _ = std::fs::write(&f, bytes);
                nproc += 1;
                match mc::output_with_timeout(std::process::Command::new(&bin).arg("verify").arg(&f), 20) {
                    Ok(Some(o)) if o.status.code().map(|c| c != 0 && c != 101).unwrap_or(false) => {}
                    other => {
                        let e = bad.entry("binary/non-utf8-file".to_string()).or_default();
                        e.0 += 1;
                        e.1.push((format!("src-bytes {}", mc::hex(bytes)), format!("[g:binary-file-reader] `verify` on a file that is not UTF-8: {:?}", other.map(|o| o.map(|o| o.status.code())))));
                    }
                }
            }
            let _ = std::fs::remove_dir_all(&dir);
        }
        _ => ctx.machinery_error("VERIF_BIN (the 2a-emulator binary built from /repo) is not available"),
    }
    ctx.set("binary_verify_invocations", nproc);
    for (k, (n, cases)) in &bad {
        for (l, w) in cases.iter().take(3) {
            if k.starts_with("machinery/") {
                ctx.machinery_error(w.clone());
            } else {
                ctx.violation(k.clone(), format!("{} ({} inputs in class)", w, n), l.clone());
            }
        }
    }
    let total: u64 = fam.values().map(|v| v.0).sum();
    let accepted: u64 = fam.values().map(|v| v.1).sum();
    ctx.set("evaluations", total);
    ctx.set("distinct_nontrivial", accepted);
    ctx.set("rule", "every input of the enumerated families is parsed by AsmParser::parse (under catch_unwind) and by REF-PARSE; accept/reject, error class and the complete AST (PartialEq on Asm) must agree; distinct_nontrivial = inputs accepted by both (a full AST was compared), families are deduplicated sets");
    ctx.set("exhaustive", true);
    ctx.set("bounds", format!("sentence family: every instruction form x operand-shape tokens x register tokens x numeric boundary tokens x separator and case variants ({}); all strings of length <= {} over a 24-symbol alphabet (special characters, blanks, line ends, digits, letters, non-ASCII, NUL) after a valid header; single-token mutations (delete/duplicate/replace by 30 tokens) of every {}th accepted sentence and of {} repository programs", if quick { "3 separators" } else { "5 separators" }, if quick { 4 } else { 6 }, step, repo.len()));
    let mut fj = Json::obj();
    for (k, (n, a)) in &fam {
        let mut o = Json::obj();
        o.set("inputs", *n).set("accepted", *a);
        fj.set(k, o);
    }
    ctx.set("families", fj);
    let mut cj = Json::obj();
    for (k, v) in &classes {
        cj.set(k, *v);
    }
    ctx.set("outcome_classes", cj);
    ctx.set("distinct_outcomes", classes.len());
    for s in [&sentences[0], &sentences[sentences.len() / 2], &shapes[shapes.len() / 3], &labels[5], &shorts[shorts.len() / 2], &muts[muts.len() / 2]] {
        ctx.sample(format!("{} -> {:?}", esc(s), judge(s).0));
    }
    ctx.set("determinism_selftest", judge(&sentences[7]).1 == judge(&sentences[7]).1);
    ctx.assume("REF-PARSE (refmodel/src/mrasm.rs + peg.rs) is the trusted statement of the mrasm language, transcribed by hand from the documented grammar; ordered-choice consequences are language facts");
    ctx.assume("when a program breaks both label rules either error class is accepted; the list of undefined labels is not compared");
    ctx.finish();
}
