//! C10 — bus address map: exhaustive single/pair operations and a BFS over operation sequences,
//! lock-step with REF-BUS (a plain map) whose board port is the real `Board`.
use emulator_2a_lib::machine::{Board, Bus};
use mc::{Ctx, Json};
use refmodel::bus::{BoardPort, RBus};
use std::collections::{BTreeMap, HashSet};

#[derive(Clone, Debug, PartialEq)]
pub struct RealBoard(pub Board);

impl BoardPort for RealBoard {
    fn port_read(&self, addr: u8) -> u8 {
        match addr {
            0xF0 => *self.0.digital_input1(),
            0xF1 => self.0.dasr().bits(),
            0xF2 => self.0.get_fan_period(),
            _ => self.0.daisr().bits(),
        }
    }
    fn port_write(&mut self, addr: u8, b: u8) {
        match addr {
            0xF0 => self.0.set_digital_output1(b),
            0xF1 => self.0.set_digital_output2(b),
            0xF2 => match b >> 6 {
                0 => self.0.set_uor(b),
                2 => self.0.set_udr(b),
                3 => self.0.set_icr(b),
                _ => {}
            },
            _ => self.0.delete_int_ff(),
        }
    }
}

type Ref = RBus<RealBoard>;

#[derive(Clone, Copy, Debug, PartialEq, Eq, Hash)]
pub enum Op {
    Write(u8, u8),
    Read(u8),
    Input(u8, u8),
    Di1(u8),
    J1(bool),
    Uio2(bool),
    Ai1(u8), // tenths of a volt
    CpuReset,
    MasterReset,
    ResetRam,
    /// the board's output ports changed through the second public door, `Bus::board_mut()`
    BoardOut(u8, u8),
    BoardMasterReset,
}

fn apply(b: &mut Bus, r: &mut Ref, op: Op) -> Option<String> {
    match op {
        Op::Write(a, v) => {
            b.write(a, v);
            r.write(a, v);
            None
        }
        Op::Read(a) => {
            let pre = b.clone();
            let got = b.read(a);
            let exp = r.read(a);
            if *b != pre {
                return Some(format!("read of {:#04x} changed the bus state", a));
            }
            if got != exp {
                return Some(format!("read of {:#04x} returned {:#04x}, expected {:#04x}", a, got, exp));
            }
            None
        }
        Op::Input(i, v) => {
            match i {
                0 => b.input_fc(v),
                1 => b.input_fd(v),
                2 => b.input_fe(v),
                _ => b.input_ff(v),
            }
            r.input[i as usize] = v;
            None
        }
        Op::Di1(v) => {
            b.board_mut().set_digital_input1(v);
            r.board.0.set_digital_input1(v);
            None
        }
        Op::J1(v) => {
            b.board_mut().set_jumper1(v);
            r.board.0.set_jumper1(v);
            None
        }
        Op::Uio2(v) => {
            b.board_mut().set_universal_input_output2(v);
            r.board.0.set_universal_input_output2(v);
            None
        }
        Op::Ai1(t) => {
            b.board_mut().set_analog_input1(t as f32 / 10.0);
            r.board.0.set_analog_input1(t as f32 / 10.0);
            None
        }
        Op::CpuReset => {
            b.cpu_reset();
            r.out = [0, 0];
            r.micr = 0;
            None
        }
        Op::MasterReset => {
            b.master_reset();
            r.out = [0, 0];
            r.micr = 0;
            r.input = [0; 4];
            r.board.0.master_reset();
            None
        }
        Op::ResetRam => {
            b.reset_ram();
            r.ram = [0; 240];
            None
        }
        Op::BoardOut(port, v) => {
            if port == 1 {
                b.board_mut().set_digital_output1(v);
                r.board.0.set_digital_output1(v);
            } else {
                b.board_mut().set_digital_output2(v);
                r.board.0.set_digital_output2(v);
            }
            None
        }
        Op::BoardMasterReset => {
            b.board_mut().master_reset();
            r.board.0.master_reset();
            None
        }
    }
}

/// Compare everything observable.
fn compare(b: &Bus, r: &Ref) -> Option<(String, String)> {
    if b.memory()[..] != r.ram[..] {
        let i = (0..240).find(|&i| b.memory()[i] != r.ram[i]).unwrap();
        return Some(("ram".into(), format!("RAM[{:#04x}] is {:#04x}, expected {:#04x}", i, b.memory()[i], r.ram[i])));
    }
    for a in 0..=255u8 {
        let (g, e) = (b.read(a), r.read(a));
        if g != e {
            let region = match a {
                0..=0xEF => "ram-read",
                0xF0..=0xF3 => "board-read",
                0xF9 => "misr-read",
                0xFC..=0xFF => "input-read",
                _ => "unmapped-read",
            };
            return Some((region.into(), format!("read({:#04x}) is {:#04x}, expected {:#04x}", a, g, e)));
        }
    }
    if b.output_fe() != r.out[0] || b.output_ff() != r.out[1] {
        return Some(("output".into(), format!("outputs FE/FF are {:#04x}/{:#04x}, expected {:#04x}/{:#04x}", b.output_fe(), b.output_ff(), r.out[0], r.out[1])));
    }
    if b.is_key_edge_int_enabled() != r.key_edge_enabled() {
        return Some(("micr".into(), format!("key edge interrupt enable is {}, expected {}", b.is_key_edge_int_enabled(), r.key_edge_enabled())));
    }
    if *b.board() != r.board.0 {
        return Some(("board".into(), format!("board is {:?}, expected {:?}", b.board(), r.board.0)));
    }
    None
}

fn line(ops: &[Op]) -> String {
    format!("bus ops={}", ops.iter().map(|o| match o {
        Op::Write(a, v) => format!("w{:02x}:{:02x}", a, v),
        Op::Read(a) => format!("r{:02x}", a),
        Op::Input(i, v) => format!("i{}:{:02x}", i, v),
        Op::Di1(v) => format!("d{:02x}", v),
        Op::J1(v) => format!("j{}", *v as u8),
        Op::Uio2(v) => format!("u{}", *v as u8),
        Op::Ai1(t) => format!("a{:02x}", t),
        Op::CpuReset => "c".to_string(),
        Op::MasterReset => "m".to_string(),
        Op::ResetRam => "z".to_string(),
        Op::BoardOut(p, v) => format!("o{}:{:02x}", p, v),
        Op::BoardMasterReset => "y".to_string(),
    }).collect::<Vec<_>>().join(","))
}

fn parse_ops(s: &str) -> Vec<Op> {
    s.split(',').filter(|t| !t.is_empty()).map(|t| {
        let (k, rest) = t.split_at(1);
        let h = |x: &str| u8::from_str_radix(x, 16).expect("hex");
        match k {
            "w" => { let (a, v) = rest.split_once(':').unwrap(); Op::Write(h(a), h(v)) }
            "r" => Op::Read(h(rest)),
            "i" => { let (a, v) = rest.split_once(':').unwrap(); Op::Input(h(a), h(v)) }
            "d" => Op::Di1(h(rest)),
            "j" => Op::J1(rest == "1"),
            "u" => Op::Uio2(rest == "1"),
            "c" => Op::CpuReset,
            "m" => Op::MasterReset,
            "z" => Op::ResetRam,
            "y" => Op::BoardMasterReset,
            "o" => { let (a, v) = rest.split_once(':').unwrap(); Op::BoardOut(h(a), h(v)) }
            _ => Op::Ai1(h(rest)),
        }
    }).collect()
}

/// Base buses: a new one, and two taken out of a Machine on which the key was pressed (the
/// interrupt status register is only ever set by the CPU side, never through the bus interface).
/// An op `Input(9, k)` at the head of a list selects base k.
fn base(k: u8) -> (Bus, Ref) {
    let mut r: Ref = RBus::new(RealBoard(Board::new()));
    if k == 0 {
        return (Bus::new(), r);
    }
    let mut m = emulator_2a_lib::machine::Machine::new(emulator_2a_lib::machine::MachineConfig::default());
    if k == 1 {
        m.raw_mut().bus_mut().write(0xF9, 0x01);
        r.write(0xF9, 0x01);
        r.misr = 0x11; // key interrupt pending + request active
    } else {
        r.misr = 0x01; // request active only: the key-edge enable bit was clear
    }
    m.trigger_key_interrupt();
    (m.bus().clone(), r)
}

fn run_ops(ops: &[Op]) -> Option<(String, String)> {
    let (k, ops) = match ops.first() {
        Some(Op::Input(9, k)) => (*k, &ops[1..]),
        _ => (0, ops),
    };
    let (mut b, mut r) = base(k);
    if let Some((kk, w)) = compare(&b, &r) {
        return Some((kk, format!("base bus {}: {}", k, w)));
    }
    for (i, op) in ops.iter().enumerate() {
        if let Some(w) = apply(&mut b, &mut r, *op) {
            return Some(("read".into(), format!("op #{} {:?}: {}", i, op, w)));
        }
        if let Some((k, w)) = compare(&b, &r) {
            return Some((k, format!("after op #{} {:?}: {}", i, op, w)));
        }
    }
    None
}

/// A few prior states from which the exhaustive single/pair sweeps start.
fn prior_states() -> Vec<Vec<Op>> {
    vec![
        vec![],
        // every register holds a value of its own, so that a read or write landing on a neighbour shows
        vec![Op::Write(0x00, 0xAA), Op::Write(0xEF, 0x55), Op::Write(0xEE, 0x56), Op::Input(0, 0x11), Op::Input(1, 0x22), Op::Input(2, 0x33), Op::Input(3, 0x44), Op::Write(0xFE, 0x7E), Op::Write(0xFF, 0x7F), Op::Di1(0x66), Op::Write(0xF0, 0x77), Op::Write(0xF1, 0x88), Op::J1(true)],
        // every interrupt enable set, the board's interrupt flip-flop raised through jumper 1
        vec![Op::Write(0xF9, 0x3F), Op::Write(0xF2, 0xC6), Op::J1(true), Op::Write(0xF2, 0x85), Op::Write(0xF1, 0x40)],
        vec![Op::Input(9, 1)],
        vec![Op::Input(9, 2), Op::Write(0xF9, 0x3F)],
        // the board's interrupt enabled (IE) and its flip-flop raised from outside: jumper 1 (level), UIO2 (edge)
        vec![Op::Write(0xF2, 0xE6), Op::J1(true), Op::Write(0xFE, 0x21)],
        vec![Op::Write(0xF9, 0x3F), Op::Write(0xF2, 0xF2), Op::Uio2(true)],
        vec![Op::Write(0xF9, 0x01), Op::Write(0xF0, 200), Op::Write(0xF1, 50), Op::Ai1(30), Op::Write(0xF2, 0x87), Op::Write(0xF2, 0xC4), Op::Di1(0x99)],
    ]
}

pub fn run() {
    let mut ctx = Ctx::from_args("model_checking");
    if let Some(f) = ctx.replay_file.clone() {
        let text = std::fs::read_to_string(&f).expect("replay file");
        let kv = mc::kv(text.lines().next().unwrap_or(""));
        let ops = parse_ops(&kv["ops"]);
        let r = run_ops(&ops);
        println!("{:?} -> {:?}", ops, r);
        if let Some((k, w)) = r {
            ctx.violation(k, w, text.clone());
        }
        ctx.finish();
    }
    let quick = ctx.quick();
    let mut bad: BTreeMap<String, (u64, Vec<(String, String)>)> = BTreeMap::new();
    let mut add_bad = |bad: &mut BTreeMap<String, (u64, Vec<(String, String)>)>, k: String, ops: &[Op], w: String| {
        let e = bad.entry(k).or_default();
        e.0 += 1;
        if e.1.len() < 4 {
            e.1.push((line(ops), w));
        }
    };
    // (a) every address x every value, written then everything read back, from each prior state
    let priors = prior_states();
    let res = mc::par_ranges(256 * priors.len(), 256, |rg| {
        let mut out = vec![];
        let mut n = 0u64;
        for i in rg {
            let (pi, a) = (i / 256, (i % 256) as u8);
            for v in 0..=255u8 {
                let mut ops = priors[pi].clone();
                ops.push(Op::Write(a, v));
                ops.push(Op::Read(a));
                n += 1;
                if let Ok(Some((k, w))) = mc::catch(|| run_ops(&ops)).map_err(|p| out.push((format!("panic/{}", p.file()), ops.clone(), format!("panic at {}: {}", p.site(), p.msg)))) {
                    if out.len() < 50 {
                        out.push((format!("single/{}", k), ops.clone(), w));
                    }
                }
            }
        }
        (n, out)
    });
    let mut singles = 0u64;
    for (n, out) in res {
        singles += n;
        for (k, ops, w) in out {
            add_bad(&mut bad, k, &ops, w);
        }
    }
    // (a') the same write repeated across each kind of reset: write(a,v); reset; write(a,v); read
    {
        let res = mc::par_ranges(256, 64, |rg| {
            let mut out = vec![];
            let mut n = 0u64;
            for a in rg {
                let a = a as u8;
                for v in [0x00u8, 0x01, 0x5A, 0xFF] {
                    for reset in [Op::CpuReset, Op::MasterReset, Op::ResetRam] {
                        let ops = [Op::Write(a, v), reset, Op::Write(a, v), Op::Read(a), Op::Write(a, v ^ 0xFF), Op::Read(a)];
                        n += 1;
                        match mc::catch(|| run_ops(&ops)) {
                            Ok(Some((k, w))) => out.push((format!("reset/{}", k), ops.to_vec(), w)),
                            Ok(None) => {}
                            Err(p) => out.push((format!("panic/{}", p.file()), ops.to_vec(), format!("panic at {}: {}", p.site(), p.msg))),
                        }
                    }
                }
            }
            (n, out)
        });
        for (n, out) in res {
            singles += n;
            for (k, ops, w) in out {
                add_bad(&mut bad, k, &ops, w);
            }
        }
    }
    // (b) all ordered pairs of write addresses with two distinct values
    let res = mc::par_ranges(65536, 256, |rg| {
        let mut out = vec![];
        let mut n = 0u64;
        for i in rg {
            let (a1, a2) = ((i >> 8) as u8, (i & 0xFF) as u8);
            for (v1, v2) in [(0xA5u8, 0x3Cu8), (0xFF, 0x00)] {
                let ops = [Op::Write(a1, v1), Op::Write(a2, v2), Op::Read(a1), Op::Read(a2)];
                n += 1;
                match mc::catch(|| run_ops(&ops)) {
                    Ok(Some((k, w))) => {
                        if out.len() < 50 {
                            out.push((format!("pair/{}", k), ops.to_vec(), w));
                        }
                    }
                    Ok(None) => {}
                    Err(p) => out.push((format!("panic/{}", p.file()), ops.to_vec(), format!("panic at {}: {}", p.site(), p.msg))),
                }
            }
        }
        (n, out)
    });
    let mut pairs = 0u64;
    for (n, out) in res {
        pairs += n;
        for (k, ops, w) in out {
            add_bad(&mut bad, k, &ops, w);
        }
    }
    // (b') the I/O page in full: every ordered pair of writes (address, value) x (address, value) within
    // 0xF0-0xFF from two prior states (thorough: every first value; quick: 40 first values incl. all
    // one-hot / one-cold patterns), everything compared afterwards
    let mut io_pairs = 0u64;
    {
        let firsts: Vec<u8> = if quick {
            let mut v: Vec<u8> = vec![0x00, 0xFF, 0x0F, 0xF0, 0x55, 0xAA, 0x3F, 0xC0, 0x87, 0x9B, 0x8F, 0x9F, 0x09, 0x7F, 0x10, 0x11];
            for i in 0..8 {
                v.push(1 << i);
                v.push(!(1u8 << i));
            }
            v.sort();
            v.dedup();
            v
        } else {
            (0..=255).collect()
        };
        let starts: Vec<(usize, Bus, Ref)> = [0usize, 1]
            .iter()
            .map(|&pi| {
                let (mut b, mut r) = base(0);
                for op in &priors[pi] {
                    apply(&mut b, &mut r, *op);
                }
                (pi, b, r)
            })
            .collect();
        // only cloned inside the workers
        let starts = mc::Shared(starts);
        let starts = &starts;
        let res = mc::par_ranges(16 * firsts.len() * starts.get().len(), 64, |rg| {
            let starts = starts.get();
            let mut out = vec![];
            let mut n = 0u64;
            for i in rg {
                let (si, rest) = (i / (16 * firsts.len()), i % (16 * firsts.len()));
                let (a1, v1) = (0xF0 + (rest / firsts.len()) as u8, firsts[rest % firsts.len()]);
                let (pi, b0, r0) = &starts[si];
                let r = mc::catch(|| {
                    let mut found = vec![];
                    let mut cnt = 0u64;
                    let (mut b1, mut r1) = (b0.clone(), r0.clone());
                    b1.write(a1, v1);
                    r1.write(a1, v1);
                    for a2 in 0xF0..=0xFFu8 {
                        for v2 in 0..=255u8 {
                            let (mut b, mut r) = (b1.clone(), r1.clone());
                            b.write(a2, v2);
                            r.write(a2, v2);
                            cnt += 1;
                            if let Some((k, w)) = compare(&b, &r) {
                                if found.len() < 3 {
                                    found.push((k, a2, v2, w));
                                }
                            }
                        }
                    }
                    (cnt, found)
                });
                let mk = |a2: u8, v2: u8| -> Vec<Op> {
                    let mut ops = priors[*pi].clone();
                    ops.extend([Op::Write(a1, v1), Op::Write(a2, v2)]);
                    ops
                };
                match r {
                    Ok((cnt, found)) => {
                        n += cnt;
                        for (k, a2, v2, w) in found {
                            if out.len() < 50 {
                                out.push((format!("pair/{}", k), mk(a2, v2), w));
                            }
                        }
                    }
                    Err(p) => out.push((format!("panic/{}", p.file()), mk(0xF0, 0), format!("panic at {} in a pair of I/O writes starting with write({:#04x},{:#04x}): {}", p.site(), a1, v1, p.msg))),
                }
            }
            (n, out)
        });
        for (n, out) in res {
            io_pairs += n;
            for (k, ops, w) in out {
                add_bad(&mut bad, k, &ops, w);
            }
        }
    }
    // (e) the same map seen by the CPU: from every prior state, instructions that read / write each of the
    // 256 addresses are executed on a Machine that owns the bus; a read must deliver REF-BUS's value and
    // leave the bus as it was, a write must have exactly REF-BUS's effect
    let mut cpu_ops = 0u64;
    {
        use emulator_2a_lib::machine::{Machine, MachineConfig, RegisterNumber, State};
        let n = priors.len() * 256;
        let res = mc::par_ranges(n, 64, |rg| {
            let mut out = vec![];
            let mut cnt = 0u64;
            for i in rg {
                let (pi, a) = (i / 256, (i % 256) as u8);
                // forms: 0 LD R0,(a) ; 1 CMP R0,(a) ; 2 BITT R0,(a) ; 3 MOV R1,(R2) with R2 = a ; 4 ST (a),R0 (0x5A) ; 5 ST (a),R0 (0xFF) ; 6 BITS (a),R0 (read-modify-write)
                for form in 0..7u8 {
                    let code: Vec<u8> = match form {
                        0 => vec![0xFF, a, 0x10],
                        1 => vec![0xFF, a, 0x20],
                        2 => vec![0xFF, a, 0x30],
                        3 => vec![0xF6, 0x11],
                        4 | 5 => vec![0xF0, 0x1F, a],
                        _ => vec![0xF0, 0x5F, a],
                    };
                    let r0 = if form == 5 { 0xFF } else { 0x5A };
                    let mut ops = priors[pi].clone();
                    let r = mc::catch(|| {
                        let (k, prior_ops) = match priors[pi].first() {
                            Some(Op::Input(9, k)) => (*k, &priors[pi][1..]),
                            _ => (0, &priors[pi][..]),
                        };
                        let (mut b, mut r) = base(k);
                        for op in prior_ops {
                            apply(&mut b, &mut r, *op);
                        }
                        // the code lives in RAM at 0x40 (both sides)
                        for (j, byte) in code.iter().chain([0x02u8, 0x02].iter()).enumerate() {
                            b.write(0x40 + j as u8, *byte);
                            r.write(0x40 + j as u8, *byte);
                        }
                        let mut m = Machine::new(MachineConfig::default());
                        m.raw_mut().set_stacksize(emulator_2a_lib::parser::Stacksize::_0);
                        m.raw_mut().set_programsize(emulator_2a_lib::parser::Programsize::Size(255));
                        *m.raw_mut().bus_mut() = b;
                        {
                            let regs = m.raw_mut().registers_mut();
                            regs.set(RegisterNumber::R0, r0);
                            regs.set(RegisterNumber::R2, a);
                            regs.set(RegisterNumber::R3, 0x40);
                            regs.set(RegisterNumber::R5, 0x7F);
                        }
                        let before = r.clone();
                        let end = crate::mach::exec_one(&mut m, 200);
                        if m.state() != State::Running || !matches!(end, crate::mach::RunEnd::Boundary(_)) {
                            return Some(("cpu/completion".to_string(), format!("the instruction did not complete: {:?}", end)));
                        }
                        // reference effect
                        match form {
                            0 | 3 => {
                                let v = before.read(a);
                                let got = m.registers().content()[if form == 0 { 0 } else { 1 }];
                                if got != v {
                                    return Some(("cpu/read-value".to_string(), format!("an instruction reading {:#04x} got {:#04x}, the map says {:#04x}", a, got, v)));
                                }
                            }
                            1 | 2 => {}
                            4 | 5 => r.write(a, r0),
                            _ => {
                                let v = before.read(a);
                                r.write(a, v | r0);
                            }
                        }
                        compare(m.bus(), &r).map(|(k, w)| (format!("cpu/{}", k), w))
                    });
                    cnt += 1;
                    ops.push(Op::Read(a));
                    match r {
                        Ok(Some((k, w))) => {
                            if out.len() < 40 {
                                out.push((k, ops, format!("instruction form {} on address {:#04x} (0 LD, 1 CMP, 2 BITT, 3 MOV R1,(R2), 4/5 ST, 6 BITS): {}", form, a, w)));
                            }
                        }
                        Ok(None) => {}
                        Err(p) => out.push((format!("panic/{}", p.file()), ops, format!("instruction form {} on address {:#04x}: panic at {}: {}", form, a, p.site(), p.msg))),
                    }
                }
            }
            (cnt, out)
        });
        for (c, out) in res {
            cpu_ops += c;
            for (k, ops, w) in out {
                add_bad(&mut bad, k, &ops, w);
            }
        }
    }
    // (d) BFS over operation sequences
    let addrs: Vec<u8> = vec![0x00, 0x7F, 0xEE, 0xEF, 0xF0, 0xF1, 0xF2, 0xF3, 0xF4, 0xF5, 0xF6, 0xF7, 0xF8, 0xF9, 0xFA, 0xFB, 0xFC, 0xFD, 0xFE, 0xFF];
    let vals: Vec<u8> = vec![0x00, 0x01, 0x80, 0xC7, 0xFF];
    let mut alphabet: Vec<Op> = vec![];
    for &a in &addrs {
        // bytes that mean something at this address come on top of the generic ones
        let special: &[u8] = match a {
            0xF2 => &[0x05, 0x87, 0xC6, 0xCE, 0xC2, 0xE6, 0xEE, 0xF2],
            0xF9 => &[0x30, 0x3E],
            0xFD => &[0x9B, 0x7F],
            _ => &[],
        };
        for &v in vals.iter().chain(special.iter()) {
            alphabet.push(Op::Write(a, v));
        }
        alphabet.push(Op::Read(a));
    }
    alphabet.extend([Op::CpuReset, Op::MasterReset, Op::ResetRam, Op::BoardOut(1, 0xC7), Op::BoardOut(2, 0xC7), Op::BoardOut(1, 0x00), Op::BoardMasterReset]);
    for i in 0..4 {
        alphabet.push(Op::Input(i, 0x5A));
    }
    alphabet.extend([Op::Di1(0xE1), Op::J1(true), Op::J1(false), Op::Uio2(true), Op::Ai1(13)]);
    let depth = 4; // both tiers (measured: seconds); the tiers differ in the I/O-page pair sweep
    #[derive(Clone)]
    struct Node {
        b: Bus,
        r: Ref,
        hist: Vec<Op>,
        bad: Option<(String, String)>,
    }
    let key = |n: &Node| -> u64 {
        // canonical key: the reference state (bit-exact) + a digest of the real bus's Debug-free observables
        let mut v: Vec<u8> = n.r.ram.to_vec();
        v.extend_from_slice(&n.r.input);
        v.extend_from_slice(&n.r.out);
        v.push(n.r.micr);
        v.push(n.r.misr);
        for a in 0xF0..=0xF3u8 {
            v.push(n.r.read(a));
        }
        v.extend_from_slice(format!("{:?}", n.r.board.0).as_bytes());
        v.extend_from_slice(format!("{:?}", n.b.board()).as_bytes());
        // the Bus itself has registers without read-back (and could grow hidden state): a reference
        // state is expanded through up to two different kinds of last operation, so that different
        // operation orders reaching the same observable state are both followed
        let variant = match n.hist.last() {
            Some(Op::Write(a, _)) if *a >= 0xF0 => 1u8,
            Some(Op::CpuReset) | Some(Op::MasterReset) | Some(Op::ResetRam) => 2,
            _ => 0,
        };
        v.push(variant);
        mc::fnv(&v) ^ (n.bad.is_some() as u64)
    };
    let inits: Vec<Node> = (0..3u8)
        .map(|k| {
            let (b, r) = base(k);
            Node { b, r, hist: if k == 0 { vec![] } else { vec![Op::Input(9, k)] }, bad: None }
        })
        .collect();
    let alpha = alphabet.clone();
    let bad_nodes = std::sync::Mutex::new(vec![]);
    let stats = mc::bfs(
        inits,
        depth,
        usize::MAX,
        key,
        |n, _d| {
            if n.bad.is_some() {
                return vec![];
            }
            alpha
                .iter()
                .map(|op| {
                    let mut m = n.clone();
                    m.hist.push(*op);
                    let r = mc::catch(|| {
                        let mut b = m.b.clone();
                        let mut r = m.r.clone();
                        let e = apply(&mut b, &mut r, *op).map(|w| ("read".to_string(), w)).or_else(|| compare(&b, &r));
                        (b, r, e)
                    });
                    match r {
                        Ok((b, r, e)) => {
                            m.b = b;
                            m.r = r;
                            m.bad = e;
                        }
                        Err(p) => m.bad = Some((format!("panic/{}", p.file()), format!("panic at {}: {}", p.site(), p.msg))),
                    }
                    if let Some((k, w)) = &m.bad {
                        let mut g = bad_nodes.lock().unwrap();
                        if g.len() < 200 {
                            g.push((format!("seq/{}", k), m.hist.clone(), w.clone()));
                        }
                    }
                    m
                })
                .collect()
        },
        |_, _| {},
    );
    // long traces: the depth bound is about *which* short sequences are tried, not about how long a bus
    // lives. 16 fixed, fully written-out sequences of 30 000 operations each (the alphabet is walked with
    // 16 different strides), compared with REF-BUS after every operation.
    let mut long_ops = 0u64;
    {
        let res = mc::par_ranges(16, 16, |rg| {
            let mut out = vec![];
            let mut n = 0u64;
            for t in rg {
                let r = mc::catch(|| {
                    let (mut b, mut r) = base((t % 3) as u8);
                    let stride = 2 * t + 1;
                    let mut cnt = 0u64;
                    let mut recent: Vec<Op> = vec![];
                    for i in 0..30_000usize {
                        let op = alpha[(i * stride + i / 17 + t) % alpha.len()];
                        recent.push(op);
                        if recent.len() > 12 {
                            recent.remove(0);
                        }
                        cnt += 1;
                        if let Some(w) = apply(&mut b, &mut r, op) {
                            return (cnt, Some(("read".to_string(), format!("operation #{} of long trace {}: {}", i, t, w), recent)));
                        }
                        if let Some((k, w)) = compare(&b, &r) {
                            return (cnt, Some((k, format!("operation #{} of long trace {} (the replay line holds the last 12 operations): {}", i, t, w), recent)));
                        }
                    }
                    (cnt, None)
                });
                match r {
                    Ok((c, v)) => {
                        n += c;
                        if let Some((k, w, ops)) = v {
                            out.push((format!("long-trace/{}", k), ops, w));
                        }
                    }
                    Err(p) => out.push((format!("panic/{}", p.file()), vec![], format!("long trace {}: panic at {}: {}", t, p.site(), p.msg))),
                }
            }
            (n, out)
        });
        for (n, out) in res {
            long_ops += n;
            for (k, ops, w) in out {
                add_bad(&mut bad, k, &ops, w);
            }
        }
    }
    for (k, ops, w) in bad_nodes.into_inner().unwrap() {
        add_bad(&mut bad, k, &ops, w);
    }
    // (c) reads are side-effect free: covered inside apply(Op::Read) at every BFS node and sweep
    for (k, (n, cases)) in &bad {
        for (l, w) in cases.iter().take(3) {
            ctx.violation(k.clone(), format!("{} ({} cases in class)", w, n), l.clone());
        }
    }
    ctx.set("states", stats.states as u64 + singles + pairs + io_pairs);
    ctx.set("transitions", stats.transitions as u64 + singles * 2 + pairs * 4 + io_pairs * 2);
    ctx.set("traces_validated_against_impl", stats.transitions as u64 + singles + pairs + io_pairs);
    ctx.set("evaluations", stats.transitions as u64 + singles + pairs + io_pairs);
    ctx.set("distinct_nontrivial", stats.states);
    ctx.set("rule", "single: write(a,v) then read, all 256 x 256, from 8 prior states (two with the board interrupt enabled and its flip-flop raised from outside) on 3 base buses; pairs: all 65 536 ordered address pairs x 2 value pairs, and inside the I/O page every ordered pair of (address, value) writes (quick: 32 first values); BFS: every sequence of the operation alphabet to the depth, states deduplicated on the reference state plus the derived Debug of the real bus and the kind of the last operation; every address read and written by executed instructions (7 forms x 256 addresses x 6 prior states); 16 long traces of 30 000 operations; after every operation all 256 addresses are read and RAM, outputs, MICR bit and the board are compared with REF-BUS; every read is checked to leave the Bus value unchanged (PartialEq)");
    ctx.set("exhaustive", !stats.cap_hit);
    ctx.set("bounds", format!("BFS depth {} over {} operations (20 addresses x 5-10 values writes, 20 reads, 4 input setters, 5 board setters, cpu/master reset, RAM reset)", depth, alphabet.len()));
    ctx.set("bfs_states", stats.states);
    ctx.set("bfs_transitions", stats.transitions);
    ctx.set("bfs_frontiers", Json::Arr(stats.frontier_sizes.iter().map(|n| Json::Int(*n as i64)).collect()));
    ctx.set("single_operations", singles);
    ctx.set("pair_operations", pairs);
    ctx.set("io_page_write_pairs", io_pairs);
    ctx.set("accesses_through_cpu_instructions", cpu_ops);
    ctx.set("long_trace_operations", long_ops);
    ctx.set("distinct_outcomes", stats.states);
    ctx.sample(line(&[Op::Write(0xEF, 0xC7), Op::Write(0xF0, 0x80), Op::Read(0xEF)]));
    ctx.sample(line(&priors[2]));
    ctx.set("determinism_selftest", run_ops(&priors[2]) == run_ops(&priors[2]));
    ctx.assume("REF-BUS (refmodel/src/bus.rs) is the trusted address map; the board behind 0xF0-0xF3 is the real Board on the reference side (C14 checks it); UART send/control and timer registers have no observable read-back and are compared only through 'nothing observable changed'");
    let _ = HashSet::<u8>::new();
    ctx.finish();
}
