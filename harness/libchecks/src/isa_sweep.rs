//! Shared per-instruction machinery for C01 (ISA semantics) and C15 (cycle cost):
//! a case = architectural start state + RAM image; the real machine is clocked from boundary
//! to boundary, REF-ISA is stepped once, and both the state and the edge count are compared.
use crate::mach::{self, RunEnd};
use emulator_2a_lib::machine::{Bus, Machine, State};
use refmodel::isa::{self, Cpu, Mem, Outcome};

/// The I/O page of the reference side.
/// `Ref`: REF-BUS (the map-based address map, validated against the real `Bus` by C10) with the real
/// `Board` behind 0xF0-0xF3 (its semantics are C14's subject) - used wherever the run starts from a
/// known bus state, so that an address-decoding fault of the real `Bus` shows through instructions.
/// `Real`: a clone of a real `Bus` taken out of a running machine (C05's resume check), where the
/// hidden registers of the bus cannot be rebuilt.
#[derive(Clone)]
pub enum IoSide {
    Ref(refmodel::bus::RBus<crate::c10::RealBoard>),
    Real(Bus),
}

impl IoSide {
    pub fn read(&self, a: u8) -> u8 {
        match self {
            IoSide::Ref(r) => r.read(a),
            IoSide::Real(b) => b.read(a),
        }
    }
    pub fn write(&mut self, a: u8, v: u8) {
        match self {
            IoSide::Ref(r) => r.write(a, v),
            IoSide::Real(b) => b.write(a, v),
        }
    }
    pub fn output_fe(&self) -> u8 {
        match self {
            IoSide::Ref(r) => r.out[0],
            IoSide::Real(b) => b.output_fe(),
        }
    }
    pub fn output_ff(&self) -> u8 {
        match self {
            IoSide::Ref(r) => r.out[1],
            IoSide::Real(b) => b.output_ff(),
        }
    }
    pub fn board(&self) -> &emulator_2a_lib::machine::Board {
        match self {
            IoSide::Ref(r) => &r.board.0,
            IoSide::Real(b) => b.board(),
        }
    }
    pub fn key_edge_enabled(&self) -> bool {
        match self {
            IoSide::Ref(r) => r.key_edge_enabled(),
            IoSide::Real(b) => b.is_key_edge_int_enabled(),
        }
    }
}

/// REF memory: own RAM array; everything >= 0xF0 goes to the reference I/O side.
#[derive(Clone)]
pub struct BusMem {
    pub ram: [u8; 240],
    pub bus: IoSide,
}

impl Mem for BusMem {
    fn read(&mut self, a: u8) -> u8 {
        if a <= 0xEF {
            self.ram[a as usize]
        } else {
            self.bus.read(a)
        }
    }
    fn write(&mut self, a: u8, v: u8) {
        if a <= 0xEF {
            self.ram[a as usize] = v
        } else {
            self.bus.write(a, v)
        }
    }
}

#[derive(Clone)]
pub struct Case {
    pub cpu: Cpu,
    pub scratch: (u8, u8),
    pub ram: [u8; 240],
    pub inputs: [u8; 4],
    pub di1: u8,
}

impl Case {
    pub fn line(&self) -> String {
        format!(
            "isa pc={:#04x} r0={:#04x} r1={:#04x} r2={:#04x} fr={:#04x} sp={:#04x} r6={:#04x} r7={:#04x} di1={:#04x} in={} ram={}",
            self.cpu.pc, self.cpu.r[0], self.cpu.r[1], self.cpu.r[2], self.cpu.fr, self.cpu.sp,
            self.scratch.0, self.scratch.1, self.di1,
            self.inputs.iter().map(|b| format!("{:02x}", b)).collect::<Vec<_>>().join(","),
            self.ram.iter().map(|b| format!("{:02x}", b)).collect::<Vec<_>>().join(",")
        )
    }
    pub fn parse(line: &str) -> Case {
        let kv = mc::kv(line);
        let n = |k: &str| mc::num(&kv[k]) as u8;
        let inputs = mc::unhex(&kv["in"]);
        let ramv = mc::unhex(&kv["ram"]);
        let mut ram = [0u8; 240];
        ram.copy_from_slice(&ramv);
        Case {
            cpu: Cpu { r: [n("r0"), n("r1"), n("r2")], pc: n("pc"), fr: n("fr"), sp: n("sp") },
            scratch: (n("r6"), n("r7")),
            ram,
            inputs: [inputs[0], inputs[1], inputs[2], inputs[3]],
            di1: n("di1"),
        }
    }
    pub fn machine(&self) -> Machine {
        let mut m = mach::free();
        let pm = refmodel::isa::PlainMem { ram: self.ram, input: self.inputs, out: [0; 2], io_touched: false };
        mach::poke(&mut m, &self.cpu, self.scratch, &pm);
        m.set_digital_input1(self.di1);
        m
    }
    pub fn refmem(&self) -> BusMem {
        let mut r = refmodel::bus::RBus::new(crate::c10::RealBoard(emulator_2a_lib::machine::Board::new()));
        r.input = self.inputs;
        r.board.0.set_digital_input1(self.di1);
        BusMem { ram: self.ram, bus: IoSide::Ref(r) }
    }
}

#[derive(Debug, Clone)]
pub enum Verdict {
    /// Compared and equal. `changed` = the instruction changed something besides the PC.
    Ok { form: &'static str, changed: bool, edges: u32 },
    /// Not comparable under the C01 protocol (supervision would interfere); counted, not judged.
    Skip(&'static str),
    /// ISA-level state mismatch (C01).
    BadState { form: &'static str, field: String, what: String },
    /// Edge-count mismatch (C15).
    BadCycles { form: &'static str, what: String },
    /// Panic inside the subject.
    Panic(mc::PanicInfo),
}

fn bus_obs(b: &Bus) -> ([u8; 16], bool) {
    let mut io = [0u8; 16];
    for i in 0..16 {
        io[i] = b.read(0xF0 + i as u8);
    }
    (io, b.is_key_edge_int_enabled())
}

fn side_obs(b: &IoSide) -> ([u8; 16], bool) {
    let mut io = [0u8; 16];
    for i in 0..16 {
        io[i] = b.read(0xF0 + i as u8);
    }
    (io, b.key_edge_enabled())
}

/// Compare the architectural state of the real machine with REF after one instruction.
pub fn compare(m: &Machine, c: &Cpu, mem: &BusMem) -> Option<(String, String)> {
    let got = mach::cpu_of(m);
    if got != *c {
        let field = if got.r != c.r {
            "reg"
        } else if got.pc != c.pc {
            "pc"
        } else if got.sp != c.sp {
            "sp"
        } else if (got.fr ^ c.fr) & 0x07 != 0 {
            "flags"
        } else {
            "fr-upper"
        };
        return Some((field.into(), format!("cpu expected {:x?} observed {:x?}", c, got)));
    }
    // the named flag getters are the public view of FR bits 0-3
    let rg = m.registers();
    let named = (rg.carry_flag() as u8) | (rg.zero_flag() as u8) << 1 | (rg.negative_flag() as u8) << 2 | (rg.interrupt_enable_flag() as u8) << 3;
    if named != c.fr & 0x0F {
        return Some(("flag-getters".into(), format!("carry/zero/negative/IE getters give {:#06b}, FR is {:#04x}", named, c.fr)));
    }
    if m.bus().memory()[..] != mem.ram[..] {
        let i = (0..240).find(|&i| m.bus().memory()[i] != mem.ram[i]).unwrap();
        return Some(("ram".into(), format!("ram[{:#04x}] expected {:#04x} observed {:#04x}", i, mem.ram[i], m.bus().memory()[i])));
    }
    if m.bus().output_fe() != mem.bus.output_fe() || m.bus().output_ff() != mem.bus.output_ff() {
        return Some(("output".into(), format!("outputs expected fe={:#x} ff={:#x} observed fe={:#x} ff={:#x}", mem.bus.output_fe(), mem.bus.output_ff(), m.bus().output_fe(), m.bus().output_ff())));
    }
    if m.bus().board() != mem.bus.board() || bus_obs(m.bus()) != side_obs(&mem.bus) {
        return Some(("io".into(), format!("I/O side differs: board expected {:?} observed {:?}", mem.bus.board(), m.bus().board())));
    }
    None
}

/// Execute one case on both sides.
pub fn run_case(case: &Case) -> Verdict {
    if case.cpu.sp >= 0xF0 {
        return Verdict::Skip("start SP >= 0xF0");
    }
    let mut c = case.cpu;
    let mut mem = case.refmem();
    let mut latch = false;
    let info = isa::step(&mut c, &mut mem, &mut latch);
    if info.sp_values.iter().any(|&s| s >= 0xF0) {
        return Verdict::Skip("SP reaches >= 0xF0 (supervision halts; subject of C05)");
    }
    let r = mc::catch(|| {
        let mut m = case.machine();
        let end = mach::exec_one(&mut m, 4096);
        (m, end)
    });
    let (m, end) = match r {
        Ok(v) => v,
        Err(p) => return Verdict::Panic(p),
    };
    let form = info.form;
    match (info.outcome, end) {
        (Outcome::Done, RunEnd::Boundary(edges)) => {
            if let Some((field, what)) = compare(&m, &c, &mem) {
                return Verdict::BadState { form, field, what };
            }
            let exp = info.words + info.waits;
            if edges != exp {
                return Verdict::BadCycles {
                    form,
                    what: format!("edges between boundaries expected {} (words {} + waits {}) observed {}", exp, info.words, info.waits, edges),
                };
            }
            let changed = c.r != case.cpu.r || c.fr != case.cpu.fr || c.sp != case.cpu.sp || mem.ram != case.ram
                || mem.bus.output_fe() != 0 || mem.bus.output_ff() != 0
                || c.pc != case.cpu.pc.wrapping_add(1);
            Verdict::Ok { form, changed, edges }
        }
        (Outcome::Stop, RunEnd::Halted(_, State::Stopped)) | (Outcome::ErrorStop, RunEnd::Halted(_, State::ErrorStopped)) => {
            if let Some((field, what)) = compare(&m, &c, &mem) {
                return Verdict::BadState { form, field: format!("halt-{}", field), what };
            }
            Verdict::Ok { form, changed: false, edges: 0 }
        }
        (Outcome::Hang, RunEnd::Timeout) => Verdict::Ok { form, changed: false, edges: 0 },
        (o, e) => Verdict::BadState {
            form,
            field: "completion".into(),
            what: format!("REF-ISA outcome {:?} but the machine ended with {:?}", o, e),
        },
    }
}

/// Deterministic RAM pattern built from boundary values and pointers to interesting places.
pub fn pattern(k: usize) -> [u8; 240] {
    const T: [u8; 16] = [0x00, 0x01, 0x02, 0x7E, 0x7F, 0x80, 0x81, 0xFE, 0xFF, 0xEF, 0xF0, 0xEE, 0xFC, 0xFD, 0x10, 0x55];
    let mut ram = [0u8; 240];
    for i in 0..240 {
        ram[i] = T[(i * 7 + k * 5 + (i >> 4) * 3 + (k >> 2)) % 16];
    }
    ram
}

pub fn place(ram: &mut [u8; 240], at: u8, bytes: &[u8]) {
    for (i, b) in bytes.iter().enumerate() {
        let a = at as usize + i;
        if a < 240 {
            ram[a] = *b;
        }
    }
}
