//! C08 — the ALU function table, complete enumeration of 16 x 256 x 256 x 2 points.
use emulator_2a_lib::machine::{AluInput, AluOutput, AluSelect, MicroprogramRam};
use mc::{Ctx, Json};
use refmodel::alu::{ref_alu, ALU_NAMES};

fn select(i: u8) -> AluSelect {
    use AluSelect::*;
    [ADDH, A, NOR, ZERO, ADD, ADDS, ADC, ADCS, LSR, RR, RRC, ASR, B, SETC, BH, INVC][i as usize]
}

fn real(sel: u8, a: u8, b: u8, cin: bool) -> Result<(u8, bool, bool, bool), mc::PanicInfo> {
    mc::catch(|| {
        let o = AluOutput::from_input(&AluInput::new(a, b, cin), &select(sel));
        (o.output(), o.carry_out(), o.zero_out(), o.negative_out())
    })
}

fn case_line(sel: u8, a: u8, b: u8, cin: bool) -> String {
    format!("alu sel={} a={} b={} cin={}", sel, a, b, cin as u8)
}

pub fn run() {
    let mut ctx = Ctx::from_args("model_checking");
    if let Some(f) = ctx.replay_file.clone() {
        let text = std::fs::read_to_string(&f).expect("replay file");
        let kv = mc::kv(text.lines().next().unwrap_or(""));
        let (sel, a, b, cin) = (
            mc::num(&kv["sel"]) as u8,
            mc::num(&kv["a"]) as u8,
            mc::num(&kv["b"]) as u8,
            mc::num(&kv["cin"]) != 0,
        );
        let exp = ref_alu(sel, a, b, cin);
        let got = real(sel, a, b, cin);
        println!("{} ({})", case_line(sel, a, b, cin), ALU_NAMES[sel as usize]);
        println!("  expected (out,c,z,n) = {:?}", exp);
        println!("  observed (out,c,z,n) = {:?}", got);
        if got.as_ref().ok() != Some(&exp) {
            ctx.violation("replay", format!("expected {:?} observed {:?}", exp, got), text);
        }
        ctx.finish();
    }
    // selects actually used by the control store (reported so a reader sees which functions matter)
    let mut used = [0usize; 16];
    for w in MicroprogramRam::CONTENT.iter() {
        if w.bits() != 0 {
            used[((w.bits() >> 1) & 0xF) as usize] += 1;
        }
    }
    // the function index of the statement is the hardware select code: the variant listed under index i
    // must carry the discriminant i, and the decoder used by the machine (Signals::alu_select, from the
    // MALUS bits of the current control word) must yield that variant for every programmed control word
    for i in 0..16u8 {
        if select(i) as u8 != i {
            ctx.violation(format!("alu/{}/select-code", ALU_NAMES[i as usize]), format!("function {} has select code {:#06b}, documented {:#06b}", ALU_NAMES[i as usize], select(i) as u8, i), case_line(i, 0, 0, false));
        }
    }
    {
        let mut m = crate::mach::free();
        let mut decoded = 0u64;
        for (addr, w) in MicroprogramRam::CONTENT.iter().enumerate() {
            if w.bits() == 0 {
                continue;
            }
            let code = ((w.bits() >> 1) & 0xF) as u8;
            let r = mc::catch(|| {
                m.raw_mut().verif_force_control(addr, 0x02, AluOutput::from_input(&AluInput::new(0, 1, false), &AluSelect::B), 0, false);
                m.signals().alu_select()
            });
            decoded += 1;
            match r {
                Ok(f) if f == select(code) => {}
                Ok(f) => ctx.violation(format!("alu/{}/decode", ALU_NAMES[code as usize]), format!("control word {:#05x} has MALUS bits {:#06b} ({}), the machine decodes {:?}", addr, code, ALU_NAMES[code as usize], f), case_line(code, 0, 0, false)),
                Err(p) => ctx.violation(format!("panic/{}", p.file()), format!("decoding the ALU function of control word {:#05x}: panic at {}: {}", addr, p.site(), p.msg), case_line(code, 0, 0, false)),
            }
        }
        ctx.set("control_words_decoded", decoded);
    }
    // the other public way to obtain an input: AluInput::default() is the input (0, 0, carry clear)
    for i in 0..16u8 {
        let d = AluInput::default();
        let via_default = mc::catch(|| {
            let o = AluOutput::from_input(&d, &select(i));
            (o.output(), o.carry_out(), o.zero_out(), o.negative_out())
        });
        let exp = ref_alu(i, 0, 0, false);
        if (d.input_a(), d.input_b(), d.carry_in()) != (0, 0, false) || via_default.as_ref().ok() != Some(&exp) {
            ctx.violation(format!("alu/{}/default-input", ALU_NAMES[i as usize]), format!("AluInput::default() reads ({}, {}, {}) and gives {:?}, expected {:?}", d.input_a(), d.input_b(), d.carry_in(), via_default, exp), case_line(i, 0, 0, false));
        }
    }
    // enumerate: one block per (sel, a)
    struct Out {
        points: u64,
        outcomes: std::collections::HashSet<(u8, u8, bool, bool, bool)>,
        bad: Vec<(u8, u8, u8, bool, String)>,
        nbad: u64,
    }
    let blocks = mc::par_ranges(16 * 256, 256, |r| {
        let mut o = Out { points: 0, outcomes: Default::default(), bad: vec![], nbad: 0 };
        for i in r {
            let sel = (i / 256) as u8;
            let a = (i % 256) as u8;
            for b in 0..=255u8 {
                for cin in [false, true] {
                    o.points += 1;
                    let exp = ref_alu(sel, a, b, cin);
                    let got = real(sel, a, b, cin);
                    match &got {
                        Ok(g) => {
                            o.outcomes.insert((sel, g.0, g.1, g.2, g.3));
                        }
                        Err(_) => {}
                    }
                    if got.as_ref().ok() != Some(&exp) {
                        o.nbad += 1;
                        if o.bad.len() < 4 {
                            let field = match &got {
                                Err(p) => format!("panic {}", p.msg),
                                Ok(g) if g.0 != exp.0 => "result".to_string(),
                                Ok(g) if g.1 != exp.1 => "carry".to_string(),
                                Ok(g) if g.2 != exp.2 => "zero".to_string(),
                                Ok(_) => "negative".to_string(),
                            };
                            o.bad.push((sel, a, b, cin, format!("{} expected {:?} observed {:?}", field, exp, got)));
                        }
                    }
                }
            }
        }
        o
    });
    let mut points = 0u64;
    let mut outcomes = std::collections::HashSet::new();
    let mut nbad_by_key: std::collections::BTreeMap<String, u64> = Default::default();
    let mut first: std::collections::BTreeMap<String, Vec<(String, String)>> = Default::default();
    for o in blocks {
        points += o.points;
        outcomes.extend(o.outcomes);
        if o.nbad > 0 {
            // all bad points of a block share (sel); classify by function + field
            for (sel, a, b, cin, what) in &o.bad {
                let field = what.split_whitespace().next().unwrap_or("?");
                let key = format!("alu/{}/{}", ALU_NAMES[*sel as usize], field);
                first.entry(key).or_default().push((case_line(*sel, *a, *b, *cin), what.clone()));
            }
            let sel = o.bad[0].0;
            *nbad_by_key.entry(ALU_NAMES[sel as usize].to_string()).or_default() += o.nbad;
        }
    }
    for (key, cases) in &first {
        for (line, what) in cases.iter().take(8) {
            ctx.violation(key.clone(), what.clone(), line.clone());
        }
    }
    ctx.set("states", points);
    ctx.set("transitions", points);
    ctx.set("traces_validated_against_impl", points);
    ctx.set("evaluations", points);
    ctx.set("distinct_nontrivial", outcomes.len());
    ctx.set("rule", "every (function, a, b, carry_in) point of the 16x256x256x2 product is executed on AluOutput::from_input and compared field by field with REF-ALU; distinct_nontrivial = number of distinct (function, result, c, z, n) outputs observed");
    ctx.set("exhaustive", points == 16 * 256 * 256 * 2);
    ctx.set("bounds", "complete product, no cut in either tier");
    let mut per = Json::obj();
    for (k, v) in &nbad_by_key {
        per.set(k, *v);
    }
    ctx.set("mismatching_points_per_function", per);
    let mut u = Json::obj();
    for i in 0..16 {
        u.set(ALU_NAMES[i], used[i]);
    }
    ctx.set("control_words_using_function", u);
    for (sel, a, b, cin) in [(0u8, 200u8, 100u8, false), (0, 1, 1, true), (9, 0x81, 0, false), (7, 5, 250, true)] {
        ctx.sample(format!("{} -> {:?}", case_line(sel, a, b, cin), real(sel, a, b, cin).ok()));
    }
    // determinism self-test
    let d1 = real(6, 0xFF, 1, true);
    let d2 = real(6, 0xFF, 1, true);
    ctx.set("determinism_selftest", d1 == d2);
    ctx.assume("REF-ALU (refmodel/src/alu.rs) is the trusted statement of the documented function list; carry-out of A/NOR/ZERO frozen at 0");
    ctx.finish();
}
