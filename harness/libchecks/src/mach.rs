//! Helpers that drive the real `Machine` at instruction-boundary granularity.
use emulator_2a_lib::machine::{Machine, MachineConfig, RegisterNumber, State};
use emulator_2a_lib::parser::{Programsize, Stacksize};
use refmodel::isa::{Cpu, PlainMem};

pub const RN: [RegisterNumber; 8] = [
    RegisterNumber::R0,
    RegisterNumber::R1,
    RegisterNumber::R2,
    RegisterNumber::R3,
    RegisterNumber::R4,
    RegisterNumber::R5,
    RegisterNumber::R6,
    RegisterNumber::R7,
];

/// A reset machine in the supervision-free configuration unless told otherwise.
pub fn fresh(stack: Stacksize, prog: Programsize) -> Machine {
    let mut m = Machine::new(MachineConfig::default());
    m.raw_mut().set_stacksize(stack);
    m.raw_mut().set_programsize(prog);
    m
}

pub fn free() -> Machine {
    fresh(Stacksize::_0, Programsize::Size(255))
}

/// Poke an architectural start state into a (reset) machine: "at a boundary before the fetch from PC".
pub fn poke(m: &mut Machine, c: &Cpu, scratch: (u8, u8), mem: &PlainMem) {
    {
        let regs = m.raw_mut().registers_mut();
        regs.set(RN[0], c.r[0]);
        regs.set(RN[1], c.r[1]);
        regs.set(RN[2], c.r[2]);
        regs.set(RN[3], c.pc);
        regs.set(RN[4], c.fr);
        regs.set(RN[5], c.sp);
        regs.set(RN[6], scratch.0);
        regs.set(RN[7], scratch.1);
    }
    let bus = m.raw_mut().bus_mut();
    bus.memory_mut().copy_from_slice(&mem.ram);
    bus.input_fc(mem.input[0]);
    bus.input_fd(mem.input[1]);
    bus.input_fe(mem.input[2]);
    bus.input_ff(mem.input[3]);
}

pub fn cpu_of(m: &Machine) -> Cpu {
    let r = m.registers().content();
    Cpu { r: [r[0], r[1], r[2]], pc: r[3], fr: r[4], sp: r[5] }
}

#[derive(Debug, Clone, Copy, PartialEq, Eq)]
pub enum RunEnd {
    /// A fetch word became current (instruction boundary) after this many edges.
    Boundary(u32),
    /// The machine left Running after this many edges.
    Halted(u32, State),
    /// No boundary within the bound.
    Timeout,
}

/// What a front-end does between two clock edges: it looks. Public read-only calls only.
pub fn observe(m: &Machine) -> u64 {
    let mut acc = 0u64;
    for a in [0x00u8, 0x10, 0x80, 0xEE, 0xEF, 0xF0, 0xF1, 0xF3, 0xF9, 0xFA, 0xFC, 0xFF] {
        acc = acc.wrapping_mul(31).wrapping_add(m.bus().read(a) as u64);
    }
    acc ^= m.bus().memory()[0x20] as u64;
    acc ^= m.signals().next_microprogram_address() as u64;
    acc ^= m.is_instruction_done() as u64;
    acc ^= m.registers().content()[3] as u64;
    acc ^= m.word().bits() as u64;
    acc ^= (m.state() as u64) << 4;
    acc ^= m.bus().output_ff() as u64;
    acc
}

/// `to_boundary` with the machine being looked at after every edge.
pub fn to_boundary_observed(m: &mut Machine, max: u32, look: bool) -> RunEnd {
    if !look {
        return to_boundary(m, max);
    }
    let mut n = 0;
    let mut left = !m.is_instruction_done();
    observe(m);
    while n < max {
        m.raw_mut().trigger_clock_edge();
        observe(m);
        n += 1;
        if m.state() != State::Running {
            return RunEnd::Halted(n, m.state());
        }
        let done = m.is_instruction_done();
        if !left {
            if !done {
                left = true;
            }
        } else if done {
            return RunEnd::Boundary(n);
        }
    }
    RunEnd::Timeout
}

/// Clock until the next time a fetch word *becomes* current, or a halt, or `max` edges.
/// If the machine currently sits on a fetch word, that one is left first.
pub fn to_boundary(m: &mut Machine, max: u32) -> RunEnd {
    let mut n = 0;
    let mut left = !m.is_instruction_done();
    while n < max {
        m.raw_mut().trigger_clock_edge();
        n += 1;
        if m.state() != State::Running {
            return RunEnd::Halted(n, m.state());
        }
        let done = m.is_instruction_done();
        if !left {
            if !done {
                left = true;
            }
        } else if done {
            return RunEnd::Boundary(n);
        }
    }
    RunEnd::Timeout
}

/// From a freshly poked reset machine: clock to the first boundary (the fetch of the instruction
/// under test), then to the second. Returns the edges between the two boundaries.
pub fn exec_one(m: &mut Machine, max: u32) -> RunEnd {
    match to_boundary(m, 4) {
        RunEnd::Boundary(_) => {}
        other => return other,
    }
    to_boundary(m, max)
}
