//! C01 (ISA semantics) and C15 (cycle cost): exhaustive per-instruction products + bounded
//! instruction sequences in lock-step with REF-ISA. One sweep, two reporting modes.
use crate::isa_sweep::{self as sw, Case, Verdict};
use crate::mach::{self, RunEnd};
use emulator_2a_lib::machine::State;
use mc::{Ctx, Json};
use refmodel::isa::{self, Cpu, Outcome};
use std::collections::BTreeMap;

#[derive(Clone, Copy, PartialEq, Eq)]
pub enum Mode {
    C01,
    C15,
}

#[derive(Default)]
struct Stats {
    evals: u64,
    changed: u64,
    skipped: BTreeMap<&'static str, u64>,
    forms: BTreeMap<&'static str, u64>,
    max_edges: BTreeMap<&'static str, u32>,
    min_edges: BTreeMap<&'static str, u32>,
    bad: BTreeMap<String, (u64, Vec<(String, String)>)>,
}

impl Stats {
    fn merge(&mut self, o: Stats) {
        self.evals += o.evals;
        self.changed += o.changed;
        for (k, v) in o.skipped {
            *self.skipped.entry(k).or_default() += v;
        }
        for (k, v) in o.forms {
            *self.forms.entry(k).or_default() += v;
        }
        for (k, v) in o.max_edges {
            let e = self.max_edges.entry(k).or_default();
            *e = (*e).max(v);
        }
        for (k, v) in o.min_edges {
            let e = self.min_edges.entry(k).or_insert(u32::MAX);
            *e = (*e).min(v);
        }
        for (k, (n, mut cases)) in o.bad {
            let e = self.bad.entry(k).or_default();
            e.0 += n;
            while e.1.len() < 6 && !cases.is_empty() {
                e.1.push(cases.remove(0));
            }
        }
    }
    fn take(&mut self, mode: Mode, group: &str, case: &Case, v: Verdict) {
        self.evals += 1;
        match v {
            Verdict::Ok { form, changed, edges } => {
                *self.forms.entry(form).or_default() += 1;
                if changed {
                    self.changed += 1;
                }
                if edges > 0 {
                    let e = self.max_edges.entry(form).or_default();
                    *e = (*e).max(edges);
                    let e = self.min_edges.entry(form).or_insert(u32::MAX);
                    *e = (*e).min(edges);
                }
            }
            Verdict::Skip(r) => *self.skipped.entry(r).or_default() += 1,
            Verdict::BadState { form, field, what } => {
                if mode == Mode::C01 {
                    self.bad_case(format!("isa/{}/{}", form, field), case, format!("[{}] {}", group, what));
                }
            }
            Verdict::BadCycles { form, what } => {
                if mode == Mode::C15 {
                    self.bad_case(format!("cycles/{}", form), case, format!("[{}] {}", group, what));
                }
            }
            Verdict::Panic(p) => {
                self.bad_case(format!("panic/{}", p.file()), case, format!("[{}] panic at {}: {}", group, p.site(), p.msg));
            }
        }
    }
    fn bad_case(&mut self, key: String, case: &Case, what: String) {
        let e = self.bad.entry(key).or_default();
        e.0 += 1;
        if e.1.len() < 6 {
            e.1.push((case.line(), what));
        }
    }
}

const B9: [u8; 9] = [0, 1, 2, 0x7E, 0x7F, 0x80, 0x81, 0xFE, 0xFF];

fn base_case(pc: u8, code: &[u8], k: usize) -> Case {
    let mut ram = sw::pattern(k);
    sw::place(&mut ram, pc, code);
    Case {
        cpu: Cpu { r: [0x11, 0x22, 0x33], pc, fr: 0, sp: 0x7F },
        scratch: (0xA5, 0x5A),
        ram,
        inputs: [0xC1, 0xD2, 0xE3, 0xF4],
        di1: 0x3C,
    }
}

fn set_reg(c: &mut Case, n: u8, v: u8) {
    if n < 3 {
        c.cpu.r[n as usize] = v
    }
}

/// G1: register-register ALU group (ADD ADC SUB AND OR MUL DIV XOR).
/// `full` = all 65 536 value pairs, else boundary set squared.
fn g1(mode: Mode, op: u8, rd: u8, rs: u8, full: bool) -> Stats {
    let mut st = Stats::default();
    let opcode = (op << 4) | (rs << 2) | rd;
    let group = format!("G1 op={:#04x}", opcode);
    let vals: Vec<u8> = if full { (0..=255u8).collect() } else { B9.to_vec() };
    let pcs: Vec<u8> = if full { (0..=0xEEu8).collect() } else { vec![0x00, 0x01, 0x7E, 0x7F, 0x80, 0xEE] };
    for cin in [0u8, 1] {
        for (si, scratch) in [(0x00u8, 0xFFu8), (0xA5, 0x5A)].iter().enumerate() {
            // scratch independence: only for the boundary set, to keep the full table x2 (carry) only
            if full && si == 1 {
                continue;
            }
            if rd != 3 && rs != 3 {
                for &a in &vals {
                    for &b in &vals {
                        if rd == rs && a != b {
                            continue;
                        }
                        let mut c = base_case(0x20, &[opcode, 0x02], 0);
                        c.scratch = *scratch;
                        c.cpu.fr = cin | 0xA0;
                        set_reg(&mut c, rd, a);
                        set_reg(&mut c, rs, b);
                        let v = sw::run_case(&c);
                        st.take(mode, &group, &c, v);
                    }
                }
            } else {
                for &p in &pcs {
                    for &a in &vals {
                        let mut c = base_case(p, &[opcode, 0x02], 1);
                        c.scratch = *scratch;
                        c.cpu.fr = cin;
                        // the non-PC operand (if any)
                        set_reg(&mut c, rd, a);
                        set_reg(&mut c, rs, a);
                        let v = sw::run_case(&c);
                        st.take(mode, &group, &c, v);
                        if rd == 3 && rs == 3 {
                            break;
                        }
                    }
                }
            }
        }
    }
    st
}

/// G2: every one-byte opcode outside the register-register group: named register x all 256
/// values x 16 flag states x upper FR bits x SP positions (stack cell contents follow the value).
fn g2(mode: Mode, opcode: u8, full: bool) -> Stats {
    let mut st = Stats::default();
    let group = format!("G2 op={:#04x}", opcode);
    let lo = opcode & 3;
    let vals: Vec<u8> = if full { (0..=255u8).collect() } else { B9.to_vec() };
    let uppers: &[u8] = if full { &[0x00, 0xA0, 0xF0] } else { &[0x00, 0xA0] };
    let sps: &[u8] = &[0x01, 0x7F, 0xEE, 0xEF];
    let is_jr = (0x20..=0x27).contains(&opcode);
    let pcs: Vec<u8> = if lo == 3 && !is_jr || is_jr { vec![0x00, 0x60, 0xE0] } else { vec![0x30] };
    for &pc in &pcs {
        for &v in &vals {
            for fl in 0..16u8 {
                for &up in uppers {
                    for &sp in sps {
                        // second byte: JR offset / CALL target = v
                        let mut c = base_case(pc, &[opcode, v, 0x02], (v as usize) & 3);
                        c.cpu.fr = fl | up;
                        c.cpu.sp = sp;
                        set_reg(&mut c, lo, v);
                        // what POP/POPF/RET/RETI will find on the stack
                        if (sp as usize) < 240 {
                            c.ram[sp as usize] = v;
                        }
                        if (sp as usize + 1) < 240 {
                            c.ram[sp as usize + 1] = v ^ 0x5A;
                        }
                        // the code itself must survive the stack cell pokes
                        sw::place(&mut c.ram, pc, &[opcode, v, 0x02]);
                        let ver = sw::run_case(&c);
                        st.take(mode, &group, &c, ver);
                    }
                }
            }
        }
    }
    st
}

/// Pointer / value set used for the registers of two-byte instructions.
fn ptr_set(pc: u8) -> Vec<u8> {
    let mut v = vec![0x00, 0x01, 0x7F, 0x80, 0xEE, 0xEF, 0xF0, 0xF1, 0xF9, 0xFB, 0xFC, 0xFE, 0xFF];
    for d in 0..4u8 {
        let a = pc.wrapping_add(d);
        if !v.contains(&a) {
            v.push(a);
        }
    }
    v
}

/// G3: two-byte group: first byte (mode, reg) x second byte x register values from the pointer
/// set (only the registers the instruction names) x placements x memory variants x flags.
fn g3(mode: Mode, b1: u8, b2: u8, full: bool) -> Stats {
    let mut st = Stats::default();
    let group = format!("G3 {:#04x} {:#04x}", b1, b2);
    let sreg = b1 & 3;
    let smode = (b1 >> 2) & 3;
    let dreg = b2 & 3;
    // 0xEE / 0xEF: the instruction runs out of the RAM into the I/O page: its later bytes are fetched
    // from 0xF0.. (the board's input port, set to the byte the code would have had there)
    let pcs: &[u8] = if full { &[0x00, 0x40, 0xE9, 0xEC, 0xEE, 0xEF] } else { &[0x40, 0xEC, 0xEF] };
    let variants = if full { 4 } else { 2 };
    let flags: &[u8] = if full { &[0x00, 0x0F, 0xA5] } else { &[0x00, 0x0F] };
    let sps: &[u8] = &[0x7F, 0xEF];
    for &pc in pcs {
        let set = ptr_set(pc);
        for k in 0..variants {
            for &fl in flags {
                for &sp in sps {
                    for &sv in &set {
                        for &dv in &set {
                            if sreg == dreg && sv != dv {
                                continue;
                            }
                            if sreg == 3 && sv != set[0] {
                                continue;
                            }
                            if dreg == 3 && dv != set[0] {
                                continue;
                            }
                            // layout: b1 [const/addr] b2 [addr] NOP NOP ; immediate bytes vary with k
                            let imm1 = sv;
                            let imm2 = dv;
                            let code: Vec<u8> = if smode >= 2 && sreg == 3 {
                                vec![b1, imm1, b2, imm2, 0x02, 0x02]
                            } else {
                                vec![b1, b2, imm2, 0x02, 0x02]
                            };
                            let mut c = base_case(pc, &code, k);
                            c.cpu.fr = fl;
                            c.cpu.sp = sp;
                            set_reg(&mut c, sreg, sv);
                            set_reg(&mut c, dreg, dv);
                            if pc as usize + code.len() > 0xF0 {
                                // the byte that falls on 0xF0 comes from the digital input port
                                c.di1 = code[0xF0 - pc as usize];
                            }
                            let ver = sw::run_case(&c);
                            st.take(mode, &group, &c, ver);
                        }
                    }
                }
            }
        }
    }
    st
}

/// The sequence alphabet: one concrete encoding per micro-routine class.
fn alphabet() -> Vec<(&'static str, Vec<u8>)> {
    vec![
        ("NOP", vec![0x02]),
        ("CLR R1", vec![0x05]),
        ("EI", vec![0x08]),
        ("DI", vec![0x0C]),
        ("PUSH R0", vec![0x10]),
        ("POP R1", vec![0x15]),
        ("PUSHF", vec![0x18]),
        ("POPF", vec![0x1C]),
        ("JR +1", vec![0x20, 0x01]),
        ("JCS +1", vec![0x21, 0x01]),
        ("JZC -4", vec![0x26, 0xFC]),
        ("CALL 0x30", vec![0x28, 0x30]),
        ("RET", vec![0x17]),
        ("RETI", vec![0x2C]),
        ("COM R0", vec![0x30]),
        ("NEG R1", vec![0x35]),
        ("LSR R0", vec![0x38]),
        ("ASR R2", vec![0x3E]),
        ("RRC R0", vec![0x40]),
        ("INC R2", vec![0x46]),
        ("TST R1", vec![0x49]),
        ("DEC R0", vec![0x50]),
        ("DEC (R2)", vec![0x56]),
        ("DEC ((R2+))", vec![0x5E]),
        ("ADD R0,R1", vec![0x64]),
        ("ADC R1,R0", vec![0x71]),
        ("SUB R0,R2", vec![0x88]),
        ("AND R1,R2", vec![0x99]),
        ("OR R2,R0", vec![0xA2]),
        ("MUL R0,R1", vec![0xB4]),
        ("DIV R1,R2", vec![0xC9]),
        ("XOR R0,R0", vec![0xD0]),
        ("MOV R0,0x81", vec![0xFB, 0x81, 0x10]),
        ("MOV (R2+),R0", vec![0xF0, 0x1A]),
        ("MOV R1,((R2+))", vec![0xFE, 0x11]),
        ("ST (next+2),R0 [self-modify]", vec![0xF0, 0x1F, 0xFF]),
        ("MOV PC,R1", vec![0xF1, 0x13]),
        ("CMP R0,(R2)", vec![0xF6, 0x20]),
        ("BITT (R2),R1", vec![0xF1, 0x36]),
        ("BITS (0xFF),R0", vec![0xF0, 0x5F, 0xFF]),
        ("BITC (R2+),0x0F", vec![0xFB, 0x0F, 0x6A]),
        ("LDSP R1", vec![0xF1, 0x40]),
        ("LDFR 0xA9", vec![0xFB, 0xA9, 0x44]),
        ("LD R1,(0xFC)", vec![0xFF, 0xFC, 0x11]),
        ("ST (0xFE),R0", vec![0xF0, 0x1F, 0xFE]),
        ("ST (0xF0),R1", vec![0xF1, 0x1F, 0xF0]),
        ("LD R0,(0xF1)", vec![0xFF, 0xF1, 0x10]),
        ("STOP", vec![0x01]),
    ]
}

struct SeqOut {
    st: Stats,
    instr: u64,
    states: std::collections::HashSet<u64>,
}

/// Run `steps` instructions of a case on the real machine and on REF-ISA in lock-step.
/// None = agreement (or the run entered supervision territory, which is C05's).
/// Clock edges from the continue key (machine Stopped by a first-byte STOP) to the next boundary.
const STOP_RESUME_EDGES: u32 = 1;

static LOCKSTEP_INSTRUCTIONS: std::sync::atomic::AtomicU64 = std::sync::atomic::AtomicU64::new(0);

fn lockstep(case: &Case, steps: usize, mode: Mode) -> Option<(String, String, &'static str)> {
    lockstep_looking(case, steps, mode, false)
}

/// `look`: the machine is observed through its public read-only API after every clock edge (a front-end
/// redraws); neither the results nor the edge counts may depend on that.
fn lockstep_looking(case: &Case, steps: usize, mode: Mode, look: bool) -> Option<(String, String, &'static str)> {
    let mut m = case.machine();
                let mut c = case.cpu;
                let mut mem = case.refmem();
                let mut latch = false;
                let mut continued = 0;
                if !matches!(mach::to_boundary_observed(&mut m, 4, look), RunEnd::Boundary(_)) {
                    return Some(("completion".to_string(), "no first boundary".to_string(), "?"));
                }
                for step in 0..steps {
                    LOCKSTEP_INSTRUCTIONS.fetch_add(1, std::sync::atomic::Ordering::Relaxed);
                    let info = isa::step(&mut c, &mut mem, &mut latch);
                    if c.sp >= 0xF0 || info.sp_values.iter().any(|&s| s >= 0xF0) {
                        return None; // supervision territory (C05)
                    }
                    let end = mach::to_boundary_observed(&mut m, 4096, look);
                    let ok_end = match (info.outcome, end) {
                        (Outcome::Done, RunEnd::Boundary(e)) => {
                            if mode == Mode::C15 && e != info.words + info.waits {
                                return Some((
                                    format!("cycles/{}", info.form),
                                    format!("step {}: edges expected {} observed {}", step, info.words + info.waits, e),
                                    info.form,
                                ));
                            }
                            true
                        }
                        (Outcome::Stop, RunEnd::Halted(_, State::Stopped)) => true,
                        (Outcome::ErrorStop, RunEnd::Halted(_, State::ErrorStopped)) => true,
                        (Outcome::Hang, RunEnd::Timeout) => true,
                        _ => false,
                    };
                    if !ok_end {
                        return Some((
                            format!("isa/{}/completion", info.form),
                            format!("step {}: REF outcome {:?}, machine {:?}", step, info.outcome, end),
                            info.form,
                        ));
                    }
                    if mode == Mode::C01 {
                        if let Some((field, what)) = sw::compare(&m, &c, &mem) {
                            return Some((format!("isa/{}/{}", info.form, field), format!("step {}: {}", step, what), info.form));
                        }
                    }
                    // a first-byte STOP is an instruction like any other: after the continue key the program
                    // goes on with the next instruction, nothing else changed (at most twice per run)
                    if info.outcome == Outcome::Stop && info.form == "STOP" && continued < 2 {
                        continued += 1;
                        m.trigger_key_continue();
                        match mach::to_boundary_observed(&mut m, 64, look) {
                            RunEnd::Boundary(e) => {
                                if mode == Mode::C01 {
                                    if let Some((field, what)) = sw::compare(&m, &c, &mem) {
                                        return Some((format!("isa/STOP-continue/{}", field), format!("step {}: after continue: {}", step, what), info.form));
                                    }
                                }
                                // frozen from the control store: after the continue key the STOP's closing word
                                // runs (one micro-step, no RAM access), then the next fetch word is current
                                if mode == Mode::C15 && e != STOP_RESUME_EDGES {
                                    return Some(("cycles/STOP-continue".to_string(), format!("step {}: {} clock edges from the continue key to the next boundary, expected {}", step, e, STOP_RESUME_EDGES), info.form));
                                }
                                continue;
                            }
                            RunEnd::Halted(..) => return None, // supervision (C05)
                            RunEnd::Timeout => return Some(("isa/STOP-continue/completion".to_string(), format!("step {}: no boundary within 64 edges after continue", step), info.form)),
                        }
                    }
                    if info.outcome != Outcome::Done {
                        break;
                    }
                }
                None
}

/// G5: code executing out of the I/O page. PC = 0xFC: every pair of bytes in the input registers
/// FC/FD is executed as an instruction (FE/FF hold INC R2 / STOP, then the PC wraps to 0);
/// PC = 0xF0: every byte on the board's digital input port is executed as an opcode.
fn io_code(mode: Mode, full: bool) -> (Stats, u64) {
    let seconds: Vec<u8> = if full { (0..=255).collect() } else { vec![0x00, 0x01, 0x02, 0x10, 0x12, 0x1A, 0x1F, 0x2E, 0x40, 0x44, 0x5F, 0x6A, 0x7F, 0x80, 0xEF, 0xF0, 0xFC, 0xFF] };
    let n = 256 * seconds.len() + 256;
    let outs = mc::par_ranges(n, 256, |range| {
        let mut st = Stats::default();
        let mut instr = 0u64;
        for idx in range {
            let (case, group) = if idx < 256 * seconds.len() {
                let (a, b) = ((idx / seconds.len()) as u8, seconds[idx % seconds.len()]);
                let mut ram = sw::pattern(1);
                sw::place(&mut ram, 0, &[0x02, 0x02, 0x01]);
                (Case { cpu: Cpu { r: [0x21, 0x9C, 0xE0], pc: 0xFC, fr: 0x05, sp: 0xD0 }, scratch: (0, 0), ram, inputs: [a, b, 0x46, 0x01], di1: 0x33 }, format!("G5 inputs FC={:#04x} FD={:#04x}", a, b))
            } else {
                let d = (idx - 256 * seconds.len()) as u8;
                let mut ram = sw::pattern(2);
                sw::place(&mut ram, 0, &[0x02, 0x02, 0x01]);
                (Case { cpu: Cpu { r: [0x21, 0x9C, 0xE0], pc: 0xF0, fr: 0x02, sp: 0xD0 }, scratch: (0, 0), ram, inputs: [0x02, 0x02, 0x02, 0x01], di1: d }, format!("G5 board port DI1={:#04x}", d))
            };
            let res = mc::catch(|| lockstep(&case, 4, mode));
            instr += 4;
            st.evals += 1;
            match res {
                Ok(None) => st.changed += 1,
                Ok(Some((key, what, _))) => {
                    let is_cycle = key.contains("cycles/");
                    if (mode == Mode::C15) == is_cycle {
                        st.bad_case(format!("iocode/{}", key), &case, format!("[{}] {}", group, what));
                    }
                }
                Err(p) => st.bad_case(format!("panic/{}", p.file()), &case, format!("[{}] panic at {}: {}", group, p.site(), p.msg)),
            }
        }
        (st, instr)
    });
    let mut st = Stats::default();
    let mut instr = 0;
    for (o, i) in outs {
        st.merge(o);
        instr += i;
    }
    (st, instr)
}

/// G6: the repository's programs (assembled by REF-ASM, so independent of the translator) run in
/// lock-step with REF-ISA for up to `steps` instructions under several input settings: long
/// histories of real code, stale micro-architectural state carried over thousands of instructions.
fn repo_runs(mode: Mode, steps: usize) -> (Stats, u64, usize) {
    let mut cases: Vec<(String, Case)> = vec![];
    for (name, src) in crate::corpus::repo_programs() {
        let image = match refmodel::mrasm::parse(&src).ok().and_then(|a| refmodel::asm::assemble(&a).ok()) {
            Some(b) => b.bytes(),
            None => continue,
        };
        if image.len() > 240 {
            continue;
        }
        for (k, inputs) in [[0u8, 0, 0, 0], [0x12, 0x34, 0x56, 0x78], [0xFF, 0x01, 0x80, 0x7F]].iter().enumerate() {
            let mut ram = [0u8; 240];
            sw::place(&mut ram, 0, &image);
            cases.push((format!("G6 {} inputs#{}", name, k), Case { cpu: Cpu { r: [0, 0, 0], pc: 0, fr: 0, sp: 0 }, scratch: (0, 0), ram, inputs: *inputs, di1: (k as u8) * 0x55 }));
        }
    }
    let n = cases.len();
    let before = LOCKSTEP_INSTRUCTIONS.load(std::sync::atomic::Ordering::Relaxed);
    let outs = mc::par_map(&cases, |(group, case)| {
        let mut st = Stats::default();
        let res = mc::catch(|| {
            let r = lockstep(case, steps.min(400), mode);
            if r.is_none() {
                return lockstep_looking(case, steps, mode, true).map(|(k, w, f)| (format!("observed/{}", k), format!("with the machine looked at after every edge: {}", w), f));
            }
            r
        });
        st.evals += 1;
        match res {
            Ok(None) => st.changed += 1,
            Ok(Some((key, what, _))) => {
                let is_cycle = key.contains("cycles/");
                if (mode == Mode::C15) == is_cycle {
                    st.bad_case(format!("program/{}", key), case, format!("[{}] {}", group, what));
                }
            }
            Err(p) => st.bad_case(format!("panic/{}", p.file()), case, format!("[{}] panic at {}: {}", group, p.site(), p.msg)),
        }
        st
    });
    let mut st = Stats::default();
    for o in outs {
        st.merge(o);
    }
    let _ = steps;
    (st, LOCKSTEP_INSTRUCTIONS.load(std::sync::atomic::Ordering::Relaxed) - before, n)
}

/// G7: every instruction of the sequence alphabet with a key interrupt pending and enabled when it
/// starts: the instruction and the interrupt entry that follows it (the `int:` word, two pushes, the jump
/// to the routine) are one interval between two boundaries; REF-ISA gives its result (frame on the stack,
/// IE cleared, PC = 2) and its cost in clock edges. Two start states, the press right at the boundary.
fn interrupted_forms(mode: Mode) -> (Stats, u64) {
    let alpha = alphabet();
    let starts = [Cpu { r: [0x00, 0x00, 0x00], pc: 0x10, fr: 0x08, sp: 0xEF }, Cpu { r: [0x80, 0x7F, 0xD0], pc: 0x10, fr: 0x0F, sp: 0xE0 }];
    let n = alpha.len() * starts.len();
    let outs = mc::par_ranges(n, n.max(1), |rg| {
        let mut st = Stats::default();
        let mut instr = 0u64;
        for idx in rg {
            let (ai, si) = (idx / starts.len(), idx % starts.len());
            let (nm, bytes) = &alpha[ai];
            if nm.starts_with("ST (next+2)") {
                continue;
            }
            let mut code = bytes.clone();
            code.extend([0x02, 0x02, 0x01]);
            let mut case = Case { cpu: starts[si], scratch: (0x00, 0xFF), ram: sw::pattern(si), inputs: [0x0F, 0xF0, 0x55, 0xAA], di1: 0x02 };
            sw::place(&mut case.ram, 0x00, &[0x02, 0x02, 0x46, 0x02, 0x2C]); // routine at 2: INC R2 ; NOP ; RETI
            sw::place(&mut case.ram, case.cpu.pc, &code);
            sw::place(&mut case.ram, 0x30, &[0x46, 0x17]);
            let group = format!("G7 start={} interrupted {}", si, nm);
            let res = mc::catch(|| -> Option<(String, String)> {
                let mut m = case.machine();
                m.raw_mut().bus_mut().write(0xF9, 0x01);
                let mut c = case.cpu;
                let mut mem = case.refmem();
                if !matches!(mach::to_boundary(&mut m, 4), RunEnd::Boundary(_)) {
                    return Some(("completion".into(), "no first boundary".into()));
                }
                m.trigger_key_interrupt();
                let mut latch = true;
                for step in 0..3 {
                    let info = isa::step(&mut c, &mut mem, &mut latch);
                    if c.sp >= 0xF0 || info.sp_values.iter().any(|&s| s >= 0xF0) {
                        return None;
                    }
                    let end = mach::to_boundary(&mut m, 4096);
                    match (info.outcome, end) {
                        (Outcome::Done, RunEnd::Boundary(e)) => {
                            if mode == Mode::C15 && e != info.words + info.waits {
                                return Some((format!("cycles/{}{}", info.form, if info.int_taken { "+interrupt-entry" } else { "" }), format!("step {}: edges expected {} (words {} + waits {}{}) observed {}", step, info.words + info.waits, info.words, info.waits, if info.int_taken { ", interrupt entry included" } else { "" }, e)));
                            }
                        }
                        (Outcome::Stop, RunEnd::Halted(_, State::Stopped)) | (Outcome::ErrorStop, RunEnd::Halted(_, State::ErrorStopped)) | (Outcome::Hang, RunEnd::Timeout) => return None,
                        (o, e) => return Some((format!("isa/{}/completion", info.form), format!("step {}: REF outcome {:?}, machine {:?}", step, o, e))),
                    }
                    if mode == Mode::C01 {
                        let got = mach::cpu_of(&m);
                        if got != c {
                            return Some((format!("isa/{}{}/cpu", info.form, if info.int_taken { "+interrupt-entry" } else { "" }), format!("step {}: cpu expected {:x?} observed {:x?}", step, c, got)));
                        }
                        if m.bus().memory()[..] != mem.ram[..] {
                            let i = (0..240).find(|&i| m.bus().memory()[i] != mem.ram[i]).unwrap();
                            return Some((format!("isa/{}{}/ram", info.form, if info.int_taken { "+interrupt-entry" } else { "" }), format!("step {}: ram[{:#04x}] expected {:#04x} observed {:#04x}", step, i, mem.ram[i], m.bus().memory()[i])));
                        }
                    }
                }
                None
            });
            instr += 3;
            st.evals += 1;
            match res {
                Ok(None) => st.changed += 1,
                Ok(Some((key, what))) => {
                    let is_cycle = key.contains("cycles/");
                    if (mode == Mode::C15) == is_cycle {
                        st.bad_case(format!("interrupted/{}", key), &case, format!("[{}] {}", group, what));
                    }
                }
                Err(p) => st.bad_case(format!("panic/{}", p.file()), &case, format!("[{}] panic at {}: {}", group, p.site(), p.msg)),
            }
        }
        (st, instr)
    });
    let mut st = Stats::default();
    let mut instr = 0;
    for (o, i) in outs {
        st.merge(o);
        instr += i;
    }
    (st, instr)
}

/// G4: all instruction sequences up to `depth` from each start state, lock-step with REF-ISA.
fn sequences(mode: Mode, depth: usize) -> (Stats, u64, u64, usize, Vec<String>) {
    let alpha = alphabet();
    let n = alpha.len();
    let total: usize = n.pow(depth as u32);
    let starts: Vec<Cpu> = vec![
        Cpu { r: [0x00, 0x00, 0x00], pc: 0x10, fr: 0x00, sp: 0xEF },
        Cpu { r: [0x80, 0x7F, 0xD0], pc: 0x10, fr: 0x0F, sp: 0xE0 },
        Cpu { r: [0xFF, 0x03, 0xFC], pc: 0xE6, fr: 0xA1, sp: 0x40 },
    ];
    let outs = mc::par_ranges(total * starts.len(), 512, |range| {
        let mut out = SeqOut { st: Stats::default(), instr: 0, states: Default::default() };
        for idx in range {
            let s = idx / total;
            let mut code = vec![];
            let mut names = vec![];
            let mut i = idx % total;
            for _ in 0..depth {
                let (nm, bytes) = &alpha[i % n];
                i /= n;
                // "next+2" self-modifying store: patch the absolute address to the byte after itself
                let mut b = bytes.clone();
                if nm.starts_with("ST (next+2)") {
                    let here = starts[s].pc as usize + code.len();
                    b[2] = (here + 3) as u8;
                }
                code.extend(b);
                names.push(*nm);
            }
            code.extend([0x02, 0x02, 0x01]);
            let mut case = Case {
                cpu: starts[s],
                scratch: (0x00, 0xFF),
                ram: sw::pattern(s),
                inputs: [0x0F, 0xF0, 0x55, 0xAA],
                di1: 0x02,
            };
            sw::place(&mut case.ram, case.cpu.pc, &code);
            // a subroutine body at 0x30 for CALL: INC R2 ; RET
            if starts[s].pc != 0x30 {
                sw::place(&mut case.ram, 0x30, &[0x46, 0x17]);
            }
            let group = format!("G4 start={} seq={:?}", s, names);
            // lock-step
            let res = mc::catch(|| {
                let r = lockstep(&case, depth + 2, mode);
                // the same run with a front-end looking at the machine after every edge (first start state)
                if r.is_none() && s == 0 {
                    return lockstep_looking(&case, depth + 2, mode, true).map(|(k, w, f)| (format!("observed/{}", k), format!("with the machine looked at after every edge: {}", w), f));
                }
                r
            });
            out.instr += depth as u64 + 2;
            out.st.evals += 1;
            match res {
                Ok(None) => {
                    out.st.changed += 1;
                }
                Ok(Some((key, what, _form))) => {
                    let is_cycle = key.contains("cycles/");
                    if (mode == Mode::C15) == is_cycle {
                        out.st.bad_case(format!("seq/{}", key), &case, format!("[{}] {}", group, what));
                    }
                }
                Err(p) => out.st.bad_case(format!("panic/{}", p.file()), &case, format!("[{}] panic at {}: {}", group, p.site(), p.msg)),
            }
            // distinct end states (dedup key: digest of REF-visible state is enough for the statistic)
            out.states.insert(mc::fnv(case.line().as_bytes()) ^ idx as u64);
        }
        out
    });
    let mut st = Stats::default();
    let mut instr = 0;
    let mut nstates = 0u64;
    for o in outs {
        st.merge(o.st);
        instr += o.instr;
        nstates += o.states.len() as u64;
    }
    let samples = vec![format!("sequence alphabet: {:?}", alpha.iter().map(|a| a.0).collect::<Vec<_>>())];
    (st, instr, nstates, total * starts.len(), samples)
}

enum Group {
    G1(u8, u8, u8, bool),
    G2(u8, bool),
    G3(u8, u8, bool),
}

pub fn run(mode: Mode) {
    let mut ctx = Ctx::from_args(if mode == Mode::C01 { "model_checking" } else { "exploration" });
    if let Some(f) = ctx.replay_file.clone() {
        let text = std::fs::read_to_string(&f).expect("replay file");
        let case = Case::parse(text.lines().next().unwrap_or(""));
        let mut c = case.cpu;
        let mut mem = case.refmem();
        let mut latch = false;
        let info = isa::step(&mut c, &mut mem, &mut latch);
        println!("start   {:x?} code {:02x?}", case.cpu, &case.ram[case.cpu.pc as usize..(case.cpu.pc as usize + 4).min(240)]);
        println!("REF-ISA {:x?} form={} outcome={:?} edges={}", c, info.form, info.outcome, info.words + info.waits);
        let v = sw::run_case(&case);
        println!("verdict {:?}", v);
        match v {
            Verdict::BadState { form, field, what } if mode == Mode::C01 => ctx.violation(format!("isa/{}/{}", form, field), what, text.clone()),
            Verdict::BadCycles { form, what } if mode == Mode::C15 => ctx.violation(format!("cycles/{}", form), what, text.clone()),
            Verdict::Panic(p) => ctx.violation(format!("panic/{}", p.file()), p.msg, text.clone()),
            _ => {}
        }
        ctx.finish();
    }
    let quick = ctx.quick();
    // quick tier: complete 65 536-pair tables for every op with (R0,R1); the seed rotates which op also gets the same-register pair (R2,R2)
    let rot_ops = [0x6u8, 0x7, 0x8, 0x9, 0xA, 0xC, 0xD];
    let extra = rot_ops[(ctx.seed as usize) % rot_ops.len()];
    let mut groups = vec![];
    for op in [0x6u8, 0x7, 0x8, 0x9, 0xA, 0xB, 0xC, 0xD] {
        for rd in 0..4u8 {
            for rs in 0..4u8 {
                let full = !quick || (rd == 0 && rs == 1) || (op == extra && rd == 2 && rs == 2);
                groups.push(Group::G1(op, rd, rs, full));
            }
        }
    }
    for opcode in 0x02..=0x5Fu8 {
        groups.push(Group::G2(opcode, !quick));
    }
    // undefined / halting first bytes are part of the completion check
    for opcode in [0x00u8, 0x01, 0xE0, 0xE5, 0xEF] {
        groups.push(Group::G2(opcode, false));
    }
    for b1 in 0xF0..=0xFFu8 {
        for b2 in 0x00..=0x7Fu8 {
            groups.push(Group::G3(b1, b2, !quick));
        }
        for b2 in [0x80u8, 0x9F, 0xC3, 0xFF] {
            groups.push(Group::G3(b1, b2, false));
        }
    }
    let results = mc::par_map(&groups, |g| match g {
        Group::G1(op, rd, rs, full) => g1(mode, *op, *rd, *rs, *full),
        Group::G2(op, full) => g2(mode, *op, *full),
        Group::G3(b1, b2, full) => g3(mode, *b1, *b2, *full),
    });
    let mut st = Stats::default();
    for r in results {
        st.merge(r);
    }
    let depth = if quick { 2 } else { 3 };
    let (sst, instr, _nst, nseq, samples) = sequences(mode, depth);
    let per_instr_evals = st.evals;
    let (ist, iinstr) = io_code(mode, !quick);
    let io_evals = ist.evals;
    let seq_evals = sst.evals + io_evals;
    let instr = instr + iinstr;
    st.merge(sst);
    st.merge(ist);
    ctx.set("io_page_code_runs", io_evals);
    let (g7, g7instr) = interrupted_forms(mode);
    let seq_evals = seq_evals + g7.evals;
    let instr = instr + g7instr;
    ctx.set("interrupted_instruction_runs", g7.evals);
    st.merge(g7);
    let (rst, rinstr, rn) = repo_runs(mode, if quick { 1500 } else { 20000 });
    let seq_evals = seq_evals + rst.evals;
    st.merge(rst);
    ctx.set("repository_program_runs", rn as u64);
    ctx.set("repository_program_instructions_in_lockstep", rinstr);
    for (key, (n, cases)) in &st.bad {
        for (line, what) in cases.iter().take(3) {
            ctx.violation(key.clone(), format!("{} ({} cases in class)", what, n), line.clone());
        }
    }
    let skipped: u64 = st.skipped.values().sum();
    ctx.set("evaluations", st.evals);
    ctx.set("distinct_nontrivial", st.changed);
    ctx.set("states", per_instr_evals - skipped + seq_evals);
    ctx.set("transitions", per_instr_evals - skipped + instr);
    ctx.set("traces_validated_against_impl", st.evals - skipped);
    ctx.set("rule", "per-instruction: every point of the products G1 (reg-reg ALU ops x 16 register pairs x value pairs x carry-in, PC operands by placement), G2 (every other one-byte opcode x 256 values x 16 flags x upper FR bits x 4 SPs), G3 (16 first bytes x second bytes 0x00-0x7F x pointer-set^2 x placements x memory variants x flags); G4: every sequence of the alphabet up to the depth from 3 start states, compared after every instruction; G5: code executing out of the I/O page (every byte pair in the input registers FC/FD executed at PC=0xFC, every byte on the board input port executed at PC=0xF0), four instructions each; G6: the repository's programs, assembled by REF-ASM, in lock-step for up to 1 500 / 20 000 instructions under 3 input settings. A case is non-trivial when the instruction changed more than the PC (sequences: ran to completion in lock-step).");
    ctx.set("exhaustive", true);
    ctx.set("bounds", format!("tier={}; G1 value pairs: {}; sequence depth {} ({} sequences, {} instructions)", if quick { "quick" } else { "thorough" }, if quick { "boundary set^2 for every register pair + complete 65536x2 tables for all 8 ops with (R0,R1) and for one rotated op with (R2,R2)" } else { "all 65536 pairs x carry-in for all 8 ops" }, depth, nseq, instr));
    let mut sk = Json::obj();
    for (k, v) in &st.skipped {
        sk.set(k, *v);
    }
    ctx.set("skipped_not_judged", sk);
    let mut forms = Json::obj();
    for (k, v) in &st.forms {
        let mut o = Json::obj();
        o.set("cases", *v);
        if let Some(mx) = st.max_edges.get(k) {
            o.set("edges_min", *st.min_edges.get(k).unwrap_or(&0));
            o.set("edges_max", *mx);
        }
        forms.set(k, o);
    }
    ctx.set("forms", forms);
    ctx.set("distinct_outcomes", st.forms.len());
    for s in samples {
        ctx.sample(s);
    }
    let c = base_case(0x20, &[0xB4, 0x02], 0);
    ctx.sample(c.line());
    let d1 = format!("{:?}", sw::run_case(&c));
    let d2 = format!("{:?}", sw::run_case(&c));
    ctx.set("determinism_selftest", d1 == d2);
    ctx.sample(format!("verdict of sample case: {}", d1));
    ctx.assume("REF-ISA (refmodel/src/isa.rs): statement clauses normative, frozen corners listed in refmodel/FROZEN.md");
    ctx.assume("I/O addresses 0xF0-0xFF are delegated to a real Bus instance on the reference side (bus map = C10, board = C14)");
    ctx.assume("cases in which the SP reaches >= 0xF0 are not judged here (supervision, C05)");
    ctx.finish();
}
