//! C05 — stack/PC supervision and absorbing halt states: an edge-level monitor (REF-SUP) runs
//! beside the real machine on every single clock edge of every generated run; halted states are
//! explored breadth-first under further stimuli.
use crate::isa_sweep::{self as sw, Case};
use crate::mach::{self, RunEnd};
use emulator_2a_lib::compiler::Translator;
use emulator_2a_lib::machine::{Machine, MachineConfig, State, StepMode};
use emulator_2a_lib::parser::{AsmParser, Programsize, Stacksize};
use mc::{Ctx, Json};
use refmodel::isa::{self, Cpu, Outcome};
use std::collections::{BTreeMap, HashSet};

pub const SIZES: [Stacksize; 5] = [Stacksize::_0, Stacksize::_16, Stacksize::_32, Stacksize::_48, Stacksize::_64];

/// REF-SUP predicates (bands frozen from the unmodified tree; upper bound 0xF0 from the statement).
pub fn sp_ok(sp: u8, s: Stacksize) -> bool {
    if sp >= 0xF0 {
        return false;
    }
    let band = match s {
        Stacksize::_0 => return true,
        Stacksize::_16 => 0xD1..=0xDEu8,
        Stacksize::_32 => 0xC1..=0xCE,
        Stacksize::_48 => 0xB1..=0xBE,
        Stacksize::_64 => 0xA1..=0xAE,
        Stacksize::NotSet => return true,
    };
    !band.contains(&sp)
}
pub fn pc_ok(pc: u8, p: Programsize) -> bool {
    match p {
        Programsize::Size(n) => pc <= n,
        _ => pc == 0,
    }
}

#[derive(Default)]
pub struct MonStats {
    pub edges: u64,
    pub flips_error_rule: u64,
    pub flips_error_00: u64,
    pub flips_stop: u64,
    pub halted_edges: u64,
    /// set when the machine halts: was the byte loaded by a fetch word (first opcode byte)?
    pub halted_at_fetch: Option<bool>,
}

/// One monitored clock edge. Returns a violation (key, what) if an invariant breaks.
pub fn monitored_edge(m: &mut Machine, st: &mut MonStats) -> Option<(String, String)> {
    let before = m.state();
    st.edges += 1;
    if before != State::Running {
        let pre = m.clone();
        m.raw_mut().trigger_clock_edge();
        st.halted_edges += 1;
        if *m != pre {
            return Some(("absorb/clock-edge-changes-halted-machine".into(), format!("a clock edge in state {:?} changed the machine", before)));
        }
        return None;
    }
    let (pend_reg, _pf, _pi, wait) = m.verif_pending();
    let (mac0, mac1, mac2) = {
        let s = m.signals();
        (s.mac0(), s.mac1(), s.mac2())
    };
    let irload = mac0 && mac2 && !mac1;
    let fetch_word = m.signals().mac3();
    let byte = m.verif_last_bus_read();
    let (stack, prog) = (m.stacksize(), m.programsize());
    m.raw_mut().trigger_clock_edge();
    let regs = *m.registers().content();
    let rule_ok = sp_ok(regs[5], stack) && pc_ok(regs[3], prog);
    let mut exp = State::Running;
    let mut why = "";
    if !wait {
        if pend_reg.is_some() && !rule_ok {
            exp = State::ErrorStopped;
            why = "register write broke the SP/PC rule";
        }
        if irload {
            if byte == 0x00 {
                exp = State::ErrorStopped;
                why = "opcode 0x00 loaded";
            } else if byte == 0x01 {
                exp = State::Stopped;
                why = "opcode 0x01 loaded";
            }
        }
    }
    let got = m.state();
    // conflict edge: the PC increment breaks the rule at the very edge that loads STOP. The statement
    // demands an error stop and a regular stop for the same edge; either halt is accepted here, what
    // matters (and is checked) is that the machine never runs on with a broken rule.
    let conflict = !wait && pend_reg.is_some() && !rule_ok && irload && byte == 0x01;
    if conflict && (got == State::Stopped || got == State::ErrorStopped) {
        st.flips_stop += 1;
        st.halted_at_fetch = Some(fetch_word);
        return None;
    }
    if got != exp {
        let key = match (exp, got) {
            (State::Running, State::ErrorStopped) => "flip/spurious-error-stop",
            (State::Running, State::Stopped) => "flip/spurious-stop",
            (State::ErrorStopped, State::Running) => "flip/missed-error-stop",
            (State::Stopped, State::Running) => "flip/missed-stop",
            _ => "flip/wrong-halt-kind",
        };
        return Some((
            key.into(),
            format!(
                "edge: expected {:?} ({}) observed {:?}; regs after {:02x?} stack {:?} prog {:?} wait={} irload={} byte={:#04x} pending_reg={:?}",
                exp, why, got, regs, stack, prog, wait, irload, byte, pend_reg
            ),
        ));
    }
    if got != State::Running {
        st.halted_at_fetch = Some(irload && fetch_word);
    }
    match (exp, why) {
        (State::ErrorStopped, "opcode 0x00 loaded") => st.flips_error_00 += 1,
        (State::ErrorStopped, _) => st.flips_error_rule += 1,
        (State::Stopped, _) => st.flips_stop += 1,
        _ => {}
    }
    if got == State::Running && !rule_ok {
        return Some((
            "invariant/running-with-broken-rule".into(),
            format!("machine reports Running with SP={:#04x} PC={:#04x} under stack {:?} prog {:?}", regs[5], regs[3], stack, prog),
        ));
    }
    None
}

#[derive(Clone)]
struct Prog {
    name: String,
    stack: Stacksize,
    prog: Programsize,
    case: Case,
    edges: u32,
}

impl Prog {
    fn line(&self) -> String {
        format!("sup stack={:?} prog={} edges={} {}", self.stack, match self.prog { Programsize::Size(n) => n.to_string(), _ => "auto".into() }, self.edges, self.case.line())
    }
    fn machine(&self) -> Machine {
        let mut m = self.case.machine();
        m.raw_mut().set_stacksize(self.stack);
        m.raw_mut().set_programsize(self.prog);
        m
    }
}

fn parse_prog(line: &str) -> Prog {
    let kv = mc::kv(line);
    let stack = match kv["stack"].as_str() {
        "_0" => Stacksize::_0,
        "_16" => Stacksize::_16,
        "_32" => Stacksize::_32,
        "_48" => Stacksize::_48,
        _ => Stacksize::_64,
    };
    let prog = if kv["prog"] == "auto" { Programsize::Auto } else { Programsize::Size(mc::num(&kv["prog"]) as u8) };
    let rest = &line[line.find("isa ").expect("isa part")..];
    Prog { name: "replay".into(), stack, prog, case: Case::parse(rest), edges: mc::num(&kv["edges"]) as u32 }
}

fn mk(name: String, stack: Stacksize, prog: Programsize, code: &[u8], at: u8, sp: u8, edges: u32) -> Prog {
    let mut ram = [0x02u8; 240]; // NOP slide everywhere else
    sw::place(&mut ram, at, code);
    Prog {
        name,
        stack,
        prog,
        case: Case { cpu: Cpu { r: [0x12, 0x34, 0x56], pc: at, fr: 0, sp }, scratch: (0, 0), ram, inputs: [1, 2, 3, 4], di1: 0 },
        edges,
    }
}

#[derive(Default)]
struct Out {
    st: MonStats,
    runs: u64,
    bad: BTreeMap<String, Vec<(String, String)>>,
    halted: Vec<(Machine, Prog)>,
    /// digest -> the stop came from a first opcode byte
    first_byte_stop: std::collections::HashMap<u64, bool>,
    halted_keys: HashSet<u64>,
    end_states: [u64; 3],
}

fn digest(m: &Machine) -> u64 {
    let mut v: Vec<u8> = m.registers().content().to_vec();
    v.extend_from_slice(&m.bus().memory()[..]);
    v.push(m.verif_micro_addr() as u8);
    v.push((m.verif_micro_addr() >> 8) as u8);
    v.push(m.verif_ir());
    v.push(m.state() as u8);
    v.push(m.bus().output_fe());
    v.push(m.bus().output_ff());
    v.push(match m.stacksize() { Stacksize::_0 => 0, Stacksize::_16 => 1, Stacksize::_32 => 2, Stacksize::_48 => 3, Stacksize::_64 => 4, _ => 5 });
    match m.programsize() {
        Programsize::Size(n) => { v.push(1); v.push(n) }
        _ => v.push(0),
    }
    // derived Debug of the whole machine: every field, also ones added later
    v.extend_from_slice(format!("{:?}", m).as_bytes());
    mc::fnv(&v)
}

fn run_prog(p: &Prog, out: &mut Out) {
    out.runs += 1;
    mc::watch::progress(|| p.line());
    let r = mc::catch(|| {
        let mut m = p.machine();
        // the supervision observes, it does not act: a twin without limits (stack size 0, program size 255)
        // is clocked alongside; up to and including the edge at which the supervised machine halts, the
        // registers, the RAM and the output registers of the two are the same
        let mut twin = p.case.machine();
        twin.raw_mut().set_stacksize(Stacksize::_0);
        twin.raw_mut().set_programsize(Programsize::Size(255));
        let mut st = MonStats::default();
        let mut viol = None;
        for edge in 0..p.edges {
            if let Some(v) = monitored_edge(&mut m, &mut st) {
                viol = Some(v);
                break;
            }
            twin.raw_mut().trigger_clock_edge();
            if m.registers().content() != twin.registers().content() || m.bus().memory()[..] != twin.bus().memory()[..] || m.bus().output_fe() != twin.bus().output_fe() || m.bus().output_ff() != twin.bus().output_ff() {
                let cell = (0..240).find(|&i| m.bus().memory()[i] != twin.bus().memory()[i]);
                viol = Some((
                    "supervision/changes-the-computation".into(),
                    format!("after edge {} (state {:?}) the supervised machine differs from the same machine without limits: registers {:02x?} vs {:02x?}, first differing RAM cell {:02x?}, outputs {:#04x}/{:#04x} vs {:#04x}/{:#04x}", edge, m.state(), m.registers().content(), twin.registers().content(), cell, m.bus().output_fe(), m.bus().output_ff(), twin.bus().output_fe(), twin.bus().output_ff()),
                ));
                break;
            }
            if m.state() != State::Running {
                // one more (absorbed) edge, then stop this run
                if let Some(v) = monitored_edge(&mut m, &mut st) {
                    viol = Some(v);
                }
                break;
            }
        }
        (m, st, viol)
    });
    match r {
        Ok((m, st, viol)) => {
            out.st.edges += st.edges;
            out.st.flips_error_00 += st.flips_error_00;
            out.st.flips_error_rule += st.flips_error_rule;
            out.st.flips_stop += st.flips_stop;
            out.st.halted_edges += st.halted_edges;
            out.end_states[m.state() as usize] += 1;
            let st_halted_at_fetch = st.halted_at_fetch;
            let st = MonStats { halted_at_fetch: st_halted_at_fetch, ..MonStats::default() };
            if let Some((k, w)) = viol {
                let e = out.bad.entry(k).or_default();
                if e.len() < 5 {
                    e.push((p.line(), format!("[{}] {}", p.name, w)));
                }
            } else if m.state() != State::Running {
                let d = digest(&m);
                if let Some(f) = st.halted_at_fetch {
                    out.first_byte_stop.insert(d, f);
                }
                if out.halted_keys.insert(d) && out.halted.len() < 400 {
                    out.halted.push((m, p.clone()));
                }
            }
        }
        Err(pi) => {
            let e = out.bad.entry(format!("panic/{}", pi.file())).or_default();
            if e.len() < 5 {
                e.push((p.line(), format!("[{}] panic at {}: {}", p.name, pi.site(), pi.msg)));
            }
        }
    }
}

/// Keys pressed while the program is still running must not change when and how it halts: for every
/// program that comes to a halt, and every clock edge before the halt, one stimulus (continue key,
/// continue twice, interrupt key, an input change) is applied at that edge; the monitor judges every
/// edge as in the undisturbed run. (The continue key only ever releases a machine that *is* Stopped.)
fn stimuli_while_running(progs: &[Prog], out: &mut Out) {
    #[derive(Clone, Copy, Debug)]
    enum S {
        Continue,
        ContinueTwice,
        Interrupt,
        Input,
    }
    for p in progs {
        // length of the undisturbed run
        let t_halt = match mc::catch(|| {
            let mut m = p.machine();
            let mut n = 0u32;
            while n < p.edges.min(400) && m.state() == State::Running {
                m.raw_mut().trigger_clock_edge();
                n += 1;
            }
            if m.state() == State::Running { None } else { Some(n) }
        }) {
            Ok(Some(n)) => n,
            _ => continue,
        };
        for t in 0..t_halt {
            for s in [S::Continue, S::ContinueTwice, S::Interrupt, S::Input] {
                out.runs += 1;
                let line = format!("{} # with {:?} before edge {}", p.line(), s, t);
                mc::watch::progress(|| line.clone());
                let r = mc::catch(|| {
                    let mut m = p.machine();
                    let mut st = MonStats::default();
                    for e in 0..t_halt + 40 {
                        if e == t {
                            match s {
                                S::Continue => m.trigger_key_continue(),
                                S::ContinueTwice => {
                                    m.trigger_key_continue();
                                    m.trigger_key_continue();
                                }
                                S::Interrupt => m.trigger_key_interrupt(),
                                S::Input => m.set_input_fd(0xA5),
                            }
                        }
                        if let Some(v) = monitored_edge(&mut m, &mut st) {
                            return (st, Some(v), m.state());
                        }
                        if m.state() != State::Running {
                            break;
                        }
                    }
                    (st, None, m.state())
                });
                match r {
                    Ok((st, viol, end)) => {
                        out.st.edges += st.edges;
                        if let Some((k, w)) = viol {
                            let e = out.bad.entry(format!("running-stimulus/{}", k)).or_default();
                            if e.len() < 5 {
                                e.push((line, format!("[{}] {:?} pressed before edge {}: {}", p.name, s, t, w)));
                            }
                        } else if end == State::Running && !matches!(s, S::Interrupt) {
                            let e = out.bad.entry("running-stimulus/halt-lost".to_string()).or_default();
                            if e.len() < 5 {
                                e.push((line, format!("[{}] the undisturbed run halts after {} edges; with {:?} before edge {} the machine is still Running 40 edges later", p.name, t_halt, s, t)));
                            }
                        }
                    }
                    Err(pi) => {
                        let e = out.bad.entry(format!("panic/{}", pi.file())).or_default();
                        if e.len() < 5 {
                            e.push((line, format!("[{}] panic at {}: {}", p.name, pi.site(), pi.msg)));
                        }
                    }
                }
            }
        }
    }
}

fn programs(quick: bool) -> Vec<Prog> {
    let mut v = vec![];
    let free_p = Programsize::Size(255);
    // (a) LDSP v for every v, then walks that cross the band edges from above and from below
    for &s in &SIZES {
        for sp in 0..=255u8 {
            let ldsp = [0xFB, sp, 0x40];
            let walks: [(&str, Vec<u8>); 5] = [
                ("push x3", vec![0x10, 0x11, 0x12]),
                ("pop x3", vec![0x14, 0x15, 0x16]),
                ("call", vec![0x28, 0x20]),
                ("pushf popf", vec![0x18, 0x1C, 0x1C]),
                ("ret", vec![0x17]),
            ];
            for (n, w) in walks.iter() {
                let mut code = ldsp.to_vec();
                code.extend(w);
                v.push(mk(format!("LDSP {:#04x}; {}", sp, n), s, free_p, &code, 0, 0x10, 90));
            }
        }
    }
    // (b) deep PUSH / CALL recursion until halt
    for &s in &SIZES {
        for start_sp in [0xEFu8, 0xE0, 0xD0, 0xC0, 0xB0, 0xA0, 0x90] {
            // L: PUSH R0 ; JR L
            v.push(mk(format!("push loop from sp {:#04x}", start_sp), s, free_p, &[0x10, 0x20, 0xFD], 0, start_sp, 3000));
            // F: CALL F
            v.push(mk(format!("call recursion from sp {:#04x}", start_sp), s, free_p, &[0x28, 0x00], 0, start_sp, 3000));
            // POP loop upward into 0xF0
            v.push(mk(format!("pop loop from sp {:#04x}", start_sp), s, free_p, &[0x14, 0x20, 0xFD], 0, start_sp, 3000));
        }
    }
    // (c) jumps / fall-through to every target for every limit
    let limits: Vec<u8> = if quick { (0..=255u8).step_by(5).chain([1, 2, 0x7F, 0xEE, 0xEF, 0xFE, 0xFF]).collect() } else { (0..=255u8).collect() };
    let targets: Vec<u8> = (0..=255u8).collect();
    for &lim in &limits {
        for &t in &targets {
            // MOV PC, t
            v.push(mk(format!("MOV PC,{:#04x} limit {}", t, lim), Stacksize::_0, Programsize::Size(lim), &[0xFB, t, 0x13], 0, 0x7F, 40));
            // JR with offset t from address 0
            v.push(mk(format!("JR off {:#04x} limit {}", t, lim), Stacksize::_0, Programsize::Size(lim), &[0x20, t], 0, 0x7F, 40));
        }
        // NOP slide falling through the limit
        v.push(mk(format!("NOP slide limit {}", lim), Stacksize::_0, Programsize::Size(lim), &[0x02], 0, 0x7F, 1200));
        // STOP exactly at / around the limit
        for d in [0u8, 1, 2] {
            let at = lim.saturating_sub(d);
            if at < 0xEF {
                let mut p = mk(format!("STOP at {:#04x} limit {}", at, lim), Stacksize::_0, Programsize::Size(lim), &[0x02], 0, 0x7F, 1200);
                p.case.ram[at as usize] = 0x01;
                v.push(p);
            }
        }
    }
    // halts reached with the key interrupt armed (MICR key bit + IE), armed only in MICR, only IE, or not at all:
    // a halted machine must stay halted whatever is enabled
    for &s in &[Stacksize::_16, Stacksize::_0] {
        for (arm, name) in [(vec![0xFBu8, 0x01, 0x5F, 0xF9, 0x08], "MICR+EI"), (vec![0xFB, 0x01, 0x5F, 0xF9], "MICR"), (vec![0x08], "EI"), (vec![], "unarmed")] {
            for (halt, hname) in [(vec![0x01u8], "STOP"), (vec![0x00], "opcode 0"), (vec![0xFB, 0xD5, 0x40], "LDSP into band"), (vec![0xF0, 0x01], "second byte 1"), (vec![0x4C], "undefined opcode")] {
                let mut code = vec![0xFB, 0xE0, 0x40];
                code.extend(&arm);
                code.extend(&halt);
                code.extend([0x02, 0x02, 0x20, 0xFE]);
                v.push(mk(format!("{} then {}", name, hname), s, free_p, &code, 0x10, 0x10, 200));
            }
        }
    }
    // Programsize::Auto (no program loaded): only PC == 0 is valid
    v.push(mk("auto limit, NOP".into(), Stacksize::_16, Programsize::Auto, &[0x02], 0, 0, 30));
    // all 2^16 two-byte heads followed by a hostile tail, every stack size, two limits
    {
        let heads: Vec<u16> = if quick { (0..=0xFFFFu16).step_by(17).collect() } else { (0..=0xFFFFu16).collect() };
        for h in heads {
            for &s in &SIZES {
                for lim in [0x30u8, 0xFF] {
                    let code = [(h >> 8) as u8, h as u8, 0xFB, 0xF0, 0x12, 0xFA, 0x10, 0x10, 0x28, 0x20, 0xF1, 0x40, 0x18, 0x1C, 0x17, 0x14, 0x20, 0xF0];
                    v.push(mk(format!("head {:04x}", h), s, Programsize::Size(lim), &code, 0, 0xE8, 260));
                }
            }
        }
    }
    // (d) every first byte at address 0 and every second byte after 0xF0/0xF5/0xFB/0xFF, all sizes in thorough
    let sizes_d: &[Stacksize] = if quick { &[Stacksize::_16] } else { &SIZES };
    for &s in sizes_d {
        for b in 0..=255u8 {
            v.push(mk(format!("first byte {:#04x}", b), s, Programsize::Size(0x40), &[b, 0x33, 0x44, 0x02, 0x01], 0, 0xE8, 700));
            for b1 in [0xF0u8, 0xF5, 0xFB, 0xFF] {
                v.push(mk(format!("second byte {:#04x} after {:#04x}", b, b1), s, Programsize::Size(0x40), &[b1, b, 0x22, 0x02, 0x02, 0x01], 0, 0xE8, 700));
            }
        }
    }
    v
}

/// (e) two-instruction sequences of the C01 alphabet under every size / a few limits.
fn seq_programs(quick: bool, triples: bool) -> Vec<Prog> {
    let mut v = vec![];
    let alpha: Vec<Vec<u8>> = vec![
        vec![0x10], vec![0x15], vec![0x18], vec![0x1C], vec![0x28, 0x30], vec![0x17], vec![0x2C], vec![0xF1, 0x40], vec![0xFB, 0xD1, 0x40],
        vec![0xFB, 0xDF, 0x40], vec![0xF1, 0x13], vec![0x20, 0x7F], vec![0x20, 0x80], vec![0x01], vec![0x00], vec![0x02], vec![0xFB, 0x01, 0x10], vec![0x08], vec![0xB4],
        vec![0x47], vec![0x53], vec![0xF0, 0x00], vec![0xF0, 0x05],
    ];
    let limits = if quick { vec![0x08u8, 0xFF] } else { vec![0x00, 0x03, 0x08, 0x40, 0xFF] };
    for &s in &SIZES {
        for &lim in &limits {
            for a in &alpha {
                for b in &alpha {
                    for (sp, r1) in [(0xE0u8, 0xD0u8), (0xD0, 0xA1), (0xAF, 0xF0)] {
                        let mut code = a.clone();
                        code.extend(b);
                        let mut p = mk(format!("seq {:02x?} {:02x?}", a, b), s, Programsize::Size(lim), &code, 0, sp, 160);
                        p.case.cpu.r[1] = r1;
                        sw::place(&mut p.case.ram, 0x30, &[0x46, 0x17]);
                        v.push(p);
                    }
                }
            }
        }
    }
    if triples {
        // three-instruction sequences, two limits
        for &s in &SIZES {
            for lim in [0x08u8, 0xFF] {
                for a in &alpha {
                    for b in &alpha {
                        for c in &alpha {
                            for (sp, r1) in [(0xE0u8, 0xD0u8), (0xD0, 0xA1), (0xAF, 0xF0)] {
                                let mut code = a.clone();
                                code.extend(b);
                                code.extend(c);
                                let mut p = mk(format!("seq {:02x?} {:02x?} {:02x?}", a, b, c), s, Programsize::Size(lim), &code, 0, sp, 200);
                                p.case.cpu.r[1] = r1;
                                sw::place(&mut p.case.ram, 0x30, &[0x46, 0x17]);
                                v.push(p);
                            }
                        }
                    }
                }
            }
        }
    }
    v
}

#[derive(Clone, Copy, Debug, PartialEq, Eq)]
enum Ev {
    Edge,
    Edges100,
    AsmStep,
    Interrupt,
    InputFc,
    BoardDi1,
    BoardAi1,
    ToggleStep,
    Continue,
    CpuReset,
}
const EVS: [Ev; 10] = [Ev::Edge, Ev::Edges100, Ev::AsmStep, Ev::Interrupt, Ev::InputFc, Ev::BoardDi1, Ev::BoardAi1, Ev::ToggleStep, Ev::Continue, Ev::CpuReset];

fn apply(m: &mut Machine, e: Ev) {
    match e {
        Ev::Edge => m.raw_mut().trigger_clock_edge(),
        Ev::Edges100 => {
            for _ in 0..100 {
                m.raw_mut().trigger_clock_edge()
            }
        }
        Ev::AsmStep => {
            let old = m.step_mode();
            m.set_step_mode(StepMode::Assembly);
            m.trigger_key_clock();
            m.set_step_mode(old);
        }
        Ev::Interrupt => m.trigger_key_interrupt(),
        Ev::InputFc => m.set_input_fc(0x5A),
        Ev::BoardDi1 => m.set_digital_input1(0xC3),
        Ev::BoardAi1 => m.set_analog_input1(3.3),
        Ev::ToggleStep => {
            let n = if m.step_mode() == StepMode::Real { StepMode::Assembly } else { StepMode::Real };
            m.set_step_mode(n)
        }
        Ev::Continue => m.trigger_key_continue(),
        Ev::CpuReset => m.cpu_reset(),
    }
}

/// BFS depth 3 from one halted machine. Returns (states, transitions, violations).
fn absorb(halted: &Machine, origin: &Prog) -> (u64, u64, Vec<(String, String, String)>) {
    let mut bad = vec![];
    let mut states = 1u64;
    let mut transitions = 0u64;
    let h0 = halted.state();
    let mut frontier: Vec<(Machine, Vec<Ev>)> = vec![(halted.clone(), vec![])];
    let mut seen: HashSet<u64> = HashSet::new();
    for _depth in 0..3 {
        let mut next = vec![];
        for (m, hist) in &frontier {
            for &e in &EVS {
                transitions += 1;
                let mut n = m.clone();
                let r = mc::catch(|| {
                    apply(&mut n, e);
                });
                let mut h2 = hist.clone();
                h2.push(e);
                let line = format!("absorb events={:?} {}", h2, origin.line());
                if let Err(p) = r {
                    bad.push((format!("panic/{}", p.file()), format!("panic at {}: {} after {:?}", p.site(), p.msg, h2), line));
                    continue;
                }
                let was = m.state();
                match e {
                    Ev::Edge | Ev::Edges100 | Ev::AsmStep if was != State::Running => {
                        if n != *m {
                            bad.push(("absorb/clock-changes-halted-machine".into(), format!("{:?} in state {:?} changed the machine (history {:?})", e, was, h2), line.clone()));
                        }
                    }
                    Ev::Interrupt | Ev::InputFc | Ev::BoardDi1 | Ev::BoardAi1 | Ev::ToggleStep if was != State::Running => {
                        if n.state() != was {
                            bad.push(("absorb/stimulus-leaves-halt".into(), format!("{:?} moved the machine from {:?} to {:?} (history {:?})", e, was, n.state(), h2), line.clone()));
                        }
                        if n.registers() != m.registers() || n.bus().memory()[..] != m.bus().memory()[..] || n.verif_micro_addr() != m.verif_micro_addr() || n.verif_ir() != m.verif_ir() {
                            bad.push(("absorb/stimulus-changes-cpu".into(), format!("{:?} changed registers/RAM/sequencer of a halted machine (history {:?})", e, h2), line.clone()));
                        }
                    }
                    Ev::Continue => {
                        let exp = if was == State::Stopped { State::Running } else { was };
                        if n.state() != exp {
                            bad.push(("continue/wrong-state".into(), format!("continue in {:?} gave {:?} (history {:?})", was, n.state(), h2), line.clone()));
                        }
                        if was == State::ErrorStopped && n != *m {
                            bad.push(("continue/changes-error-stopped".into(), format!("continue changed an error-stopped machine (history {:?})", h2), line.clone()));
                        }
                    }
                    Ev::CpuReset => {
                        if n.state() != State::Running {
                            bad.push(("reset/not-running".into(), format!("cpu_reset left state {:?}", n.state()), line.clone()));
                        }
                    }
                    _ => {}
                }
                // only keep exploring while the machine is still in the original halt (the rest is C07/C11 territory)
                if n.state() == h0 && seen.insert(digest(&n) ^ (n.step_mode() as u64) << 60 ^ mc::fnv(&[n.bus().read(0xFC), n.bus().read(0xF0), n.bus().read(0xF9), n.verif_pending().2 as u8])) {
                    states += 1;
                    next.push((n, h2));
                }
            }
        }
        frontier = next;
    }
    (states, transitions, bad)
}

/// Continue from a regular stop at a first-byte STOP: the computation resumes with the next instruction.
fn resume_check(halted: &Machine, origin: &Prog, first_byte: bool) -> Option<(String, String, String)> {
    if halted.state() != State::Stopped || !first_byte {
        return None; // second-byte stops land in the interrupt-entry routine (frozen, not "next instruction")
    }
    let at_halt = mach::cpu_of(halted);
    let mut m = halted.clone();
    m.trigger_key_continue();
    let line = format!("resume {}", origin.line());
    let stack = m.stacksize();
    let prog = m.programsize();
    // the edges right after the continue are monitored too (Running must imply a valid SP/PC)
    {
        let mut mm = m.clone();
        let mut st = MonStats::default();
        for _ in 0..12 {
            if let Some((k, w)) = monitored_edge(&mut mm, &mut st) {
                return Some((format!("continue/{}", k), format!("after continue from a regular stop: {}", w), line));
            }
            if mm.state() != State::Running {
                break;
            }
        }
    }
    match mach::to_boundary(&mut m, 64) {
        RunEnd::Boundary(_) => {
            let now = mach::cpu_of(&m);
            if now != at_halt || m.bus().memory()[..] != halted.bus().memory()[..] {
                return Some(("continue/resume-state".into(), format!("after continue the next boundary has {:x?}, expected the state at the stop {:x?}", now, at_halt), line));
            }
            // one more instruction against REF-ISA
            let mut c = at_halt;
            let mut mem = sw::BusMem { ram: *m.bus().memory(), bus: sw::IoSide::Real(m.bus().clone()) };
            let mut latch = m.verif_pending().2;
            let info = isa::step(&mut c, &mut mem, &mut latch);
            let supervised = info.sp_values.iter().any(|&s| !sp_ok(s, stack)) || info.pc_values.iter().any(|&p| !pc_ok(p, prog));
            if info.outcome == Outcome::Done && !supervised && !info.int_taken {
                match mach::to_boundary(&mut m, 4096) {
                    RunEnd::Boundary(_) => {
                        if let Some((f, w)) = sw::compare(&m, &c, &mem) {
                            return Some((format!("continue/next-instruction/{}", f), format!("instruction after the STOP: {}", w), line));
                        }
                    }
                    other => return Some(("continue/next-instruction/completion".into(), format!("instruction after the STOP did not complete: {:?}", other), line)),
                }
            }
            None
        }
        RunEnd::Halted(_, _) => None, // e.g. PC beyond the limit right after the stop: supervision, judged by the monitor
        RunEnd::Timeout => Some(("continue/no-boundary".into(), "no boundary within 64 edges after continue".into(), line)),
    }
}

/// Supervision is not a matter of the first life only: after a reset the same RAM image runs again
/// (registers zero, PC 0) and every edge is monitored as before.
fn rerun_after_reset(halted: &Machine, origin: &Prog) -> Vec<(String, String, String)> {
    let mut bad = vec![];
    for (name, master) in [("cpu_reset", false), ("master_reset", true)] {
        let mut m = halted.clone();
        if master {
            m.master_reset();
        } else {
            m.cpu_reset();
        }
        let mut st = MonStats::default();
        for _ in 0..260 {
            if let Some((k, w)) = monitored_edge(&mut m, &mut st) {
                bad.push((format!("after-reset/{}", k), format!("second life after {}: {}", name, w), format!("rerun {} {}", name, origin.line())));
                break;
            }
            if m.state() != State::Running {
                break;
            }
        }
    }
    bad
}

/// Programs that go through the real assembler and `Machine::load` (limits installed by load).
fn loaded_programs(out: &mut Out) {
    let srcs = [
        ("auto size", "#! mrasm\n NOP\n NOP\n NOP\n", Stacksize::_16, 3u8),
        ("explicit size 1", "#! mrasm\n*PROGRAMSIZE 1\n NOP\n NOP\n NOP\n", Stacksize::_16, 1),
        ("stack 32", "#! mrasm\n*STACKSIZE 32\n LDSP 0xC1\n NOP\n", Stacksize::_32, 4),
        ("stack 0", "#! mrasm\n*STACKSIZE 0\n LDSP 0xD5\nL:\n JR L\n", Stacksize::_0, 5),
        ("stack 64 push", "#! mrasm\n*STACKSIZE 64\n LDSP 0xB0\nL:\n PUSH R0\n JR L\n", Stacksize::_64, 6),
        ("empty program", "#! mrasm\n", Stacksize::_16, 0),
        ("trailing .BYTE", "#! mrasm\n NOP\n .BYTE 5\n", Stacksize::_16, 6),
        ("trailing .ORG", "#! mrasm\n NOP\n NOP\n .ORG 20\n", Stacksize::_16, 20),
        ("trailing zero .DB", "#! mrasm\n NOP\n .DB 0, 0\n", Stacksize::_16, 3),
        ("explicit size beyond image", "#! mrasm\n*PROGRAMSIZE 40\n NOP\n NOP\n", Stacksize::_16, 40),
        ("explicit size 0", "#! mrasm\n*PROGRAMSIZE 0\n*STACKSIZE 48\n NOP\n NOP\n", Stacksize::_48, 0),
        ("image of 240 bytes", "#! mrasm\n .ORG 239\n NOP\n", Stacksize::_16, 240),
    ];
    for (name, src, stack, size) in srcs {
        out.runs += 1;
        let r = mc::catch(|| {
            let asm = AsmParser::parse(src).expect("fixed program parses");
            let bc = Translator::compile(&asm);
            let mut m = Machine::new(MachineConfig::default());
            m.load(bc);
            let mut st = MonStats::default();
            let cfg_ok = m.stacksize() == stack && m.programsize() == Programsize::Size(size);
            let mut viol = None;
            if !cfg_ok {
                viol = Some(("load/limits".to_string(), format!("load installed stack {:?} prog {:?}, expected {:?} / Size({})", m.stacksize(), m.programsize(), stack, size)));
            }
            for _ in 0..2000 {
                if viol.is_some() {
                    break;
                }
                viol = monitored_edge(&mut m, &mut st);
                if m.state() != State::Running {
                    break;
                }
            }
            (st, viol)
        });
        match r {
            Ok((st, viol)) => {
                out.st.edges += st.edges;
                out.st.flips_error_rule += st.flips_error_rule;
                out.st.flips_error_00 += st.flips_error_00;
                out.st.flips_stop += st.flips_stop;
                if let Some((k, w)) = viol {
                    out.bad.entry(k).or_default().push((format!("loaded name={:?}", name), format!("[loaded: {}] {}", name, w)));
                }
            }
            Err(p) => out.bad.entry(format!("panic/{}", p.file())).or_default().push((format!("loaded name={:?}", name), format!("panic at {}: {}", p.site(), p.msg))),
        }
    }
    // long lives: looping programs that touch the band edges on every turn, 100 000 monitored edges each
    for (name, src) in [
        ("push/pop at the band edge", "#! mrasm\n*STACKSIZE 16\n LDSP 0xE0\nL:\n PUSH R0\n POP R1\n INC R0\n JR L\n"),
        ("call/ret loop", "#! mrasm\n*STACKSIZE 32\n LDSP 0xD1\nL:\n CALL S\n INC R2\n JR L\nS:\n PUSH R2\n POP R1\n RET\n"),
        ("counting with MUL/DIV", "#! mrasm\n*STACKSIZE 0\n LDSP 0xEF\n LD R1, 3\nL:\n INC R0\n MUL R0, R1\n DIV R0, R1\n PUSHF\n POPF\n JR L\n"),
        ("pc at the limit", "#! mrasm\n*PROGRAMSIZE 12\n LDSP 0x80\nL:\n NOP\n NOP\n NOP\n NOP\n NOP\n JR L\n"),
        ("ldsp sweep", "#! mrasm\n*STACKSIZE 64\n LD R0, 0\nL:\n LDSP R0\n DEC R0\n JR L\n"),
    ] {
        out.runs += 1;
        let r = mc::catch(|| {
            let mut m = Machine::new(MachineConfig::default());
            m.load(Translator::compile(&AsmParser::parse(src).expect("fixed program parses")));
            let mut st = MonStats::default();
            let mut viol = None;
            for _ in 0..100_000 {
                viol = monitored_edge(&mut m, &mut st);
                if viol.is_some() || m.state() != State::Running {
                    break;
                }
            }
            (st, viol)
        });
        match r {
            Ok((st, viol)) => {
                out.st.edges += st.edges;
                out.st.flips_error_rule += st.flips_error_rule;
                if let Some((k, w)) = viol {
                    out.bad.entry(k).or_default().push((format!("loaded name={:?}", name), format!("[long life: {}] {}", name, w)));
                }
            }
            Err(p) => out.bad.entry(format!("panic/{}", p.file())).or_default().push((format!("loaded name={:?}", name), format!("panic at {}: {}", p.site(), p.msg))),
        }
    }
    // second loads: every ordered pair (first program run for a while, then the second one loaded on the
    // same machine). A NOSET directive leaves the limit of the first life in force; every other program
    // installs its own. The expectation comes from the program texts, not from the machine's getters.
    let nosets: [(&str, &str, Option<Stacksize>, Option<u8>); 3] = [
        ("noset both, jump to 0x40", "#! mrasm\n*PROGRAMSIZE NOSET\n*STACKSIZE NOSET\n JR T\n .ORG 0x40\nT:\n NOP\n STOP\n", None, None),
        ("noset size only", "#! mrasm\n*PROGRAMSIZE NOSET\n*STACKSIZE 32\n LDSP 0xC1\n NOP\n NOP\n", Some(Stacksize::_32), None),
        ("noset stack only", "#! mrasm\n*STACKSIZE NOSET\n LDSP 0xD5\n PUSH R0\n NOP\n", None, Some(5)),
    ];
    let mut all: Vec<(&str, &str, Option<Stacksize>, Option<u8>)> = srcs.iter().map(|(n, s, st, sz)| (*n, *s, Some(*st), Some(*sz))).collect();
    all.extend(nosets.iter().cloned());
    for (n1, s1, st1, sz1) in &all {
        for (n2, s2, st2, sz2) in &all {
            out.runs += 1;
            let name = format!("{} -> {}", n1, n2);
            let r = mc::catch(|| {
                let mut m = Machine::new(MachineConfig::default());
                m.load(Translator::compile(&AsmParser::parse(s1).expect("fixed program parses")));
                for _ in 0..150 {
                    m.raw_mut().trigger_clock_edge();
                }
                // limits in force after the first load (defaults of a new machine where the first says NOSET)
                let d = Machine::new(MachineConfig::default());
                let stack1 = st1.unwrap_or(d.stacksize());
                let prog1 = sz1.map(Programsize::Size).unwrap_or(d.programsize());
                m.load(Translator::compile(&AsmParser::parse(s2).expect("fixed program parses")));
                let (stack, prog) = (st2.unwrap_or(stack1), sz2.map(Programsize::Size).unwrap_or(prog1));
                let mut st = MonStats::default();
                let mut viol = None;
                if m.stacksize() != stack || m.programsize() != prog {
                    viol = Some(("load/limits".to_string(), format!("second load installed stack {:?} prog {:?}, expected {:?} / {:?}", m.stacksize(), m.programsize(), stack, prog)));
                }
                for _ in 0..600 {
                    if viol.is_some() {
                        break;
                    }
                    viol = monitored_edge(&mut m, &mut st);
                    if m.state() != State::Running {
                        break;
                    }
                }
                (st, viol)
            });
            match r {
                Ok((st, viol)) => {
                    out.st.edges += st.edges;
                    out.st.flips_error_rule += st.flips_error_rule;
                    out.st.flips_error_00 += st.flips_error_00;
                    out.st.flips_stop += st.flips_stop;
                    if let Some((k, w)) = viol {
                        out.bad.entry(k).or_default().push((format!("loaded name={:?}", name), format!("[loaded: {}] {}", name, w)));
                    }
                }
                Err(p) => out.bad.entry(format!("panic/{}", p.file())).or_default().push((format!("loaded name={:?}", name), format!("panic at {}: {}", p.site(), p.msg))),
            }
        }
    }
}

pub fn run() {
    let mut ctx = Ctx::from_args("model_checking");
    if let Some(f) = ctx.replay_file.clone() {
        let text = std::fs::read_to_string(&f).expect("replay file");
        let line = text.lines().next().unwrap_or("");
        let start = line.find("sup ").expect("replay line must contain a 'sup' program");
        let p = parse_prog(&line[start..]);
        let mut out = Out::default();
        run_prog(&p, &mut out);
        println!("program {} -> edges {} end states {:?}", p.line().chars().take(160).collect::<String>(), out.st.edges, out.end_states);
        for (k, cases) in &out.bad {
            for (l, w) in cases {
                println!("  {} :: {}", k, w);
                ctx.violation(k.clone(), w.clone(), l.clone());
            }
        }
        for (m, pr) in &out.halted {
            let (_, _, bad) = absorb(m, pr);
            for (k, w, l) in bad {
                println!("  {} :: {}", k, w);
                ctx.violation(k, w, l);
            }
            let fb = out.first_byte_stop.get(&digest(m)).cloned().unwrap_or(false);
            if let Some((k, w, l)) = resume_check(m, pr, fb) {
                println!("  {} :: {}", k, w);
                ctx.violation(k, w, l);
            }
        }
        ctx.finish();
    }
    let quick = ctx.quick();
    // the quick tier runs the full single- and two-instruction families (seconds); the thorough tier
    // adds all three-instruction sequences and more halted states per class
    let mut progs = programs(false);
    progs.extend(seq_programs(false, !quick));
    let n_progs = progs.len();
    let outs = mc::par_ranges(progs.len(), 256, |r| {
        let mut out = Out::default();
        for i in r {
            run_prog(&progs[i], &mut out);
        }
        mc::watch::idle();
        out
    });
    let mut all = Out::default();
    loaded_programs(&mut all);
    // keys pressed while the program runs: the two-instruction sequences under one setting and the
    // halting opcode-byte programs
    {
        let chosen: Vec<Prog> = progs
            .iter()
            .filter(|p| (p.name.starts_with("seq ") && p.name.matches('[').count() == 2 && p.stack == Stacksize::_16 && p.prog == Programsize::Size(0xFF) && p.case.cpu.sp == 0xE0) || (p.name.starts_with("second byte 0x0") && p.stack == Stacksize::_16))
            .cloned()
            .collect();
        let outs = mc::par_ranges(chosen.len(), chosen.len().max(1), |rg| {
            let mut o = Out::default();
            stimuli_while_running(&chosen[rg], &mut o);
            mc::watch::idle();
            o
        });
        let mut n = 0u64;
        for o in outs {
            n += o.runs;
            all.st.edges += o.st.edges;
            for (k, v) in o.bad {
                let e = all.bad.entry(k).or_default();
                for c in v {
                    if e.len() < 5 {
                        e.push(c);
                    }
                }
            }
        }
        ctx.set("runs_with_a_key_pressed_while_running", n);
    }
    for o in outs {
        all.st.edges += o.st.edges;
        all.st.flips_error_rule += o.st.flips_error_rule;
        all.st.flips_error_00 += o.st.flips_error_00;
        all.st.flips_stop += o.st.flips_stop;
        all.st.halted_edges += o.st.halted_edges;
        all.runs += o.runs;
        for i in 0..3 {
            all.end_states[i] += o.end_states[i];
        }
        for (k, v) in o.bad {
            let e = all.bad.entry(k).or_default();
            for c in v {
                if e.len() < 5 {
                    e.push(c);
                }
            }
        }
        all.first_byte_stop.extend(o.first_byte_stop);
        for (m, p) in o.halted {
            if all.halted_keys.insert(digest(&m)) {
                all.halted.push((m, p));
            }
        }
    }
    // absorption BFS from every distinct halted state (bounded number per tier, spread over the set)
    // class-complete choice: every class (halt kind, micro address, IR, stack size, rule intact or
    // broken at the halt, key interrupt armed in MICR, IE set) contributes up to `per_class` states, in deterministic order
    let per_class = if quick { 12 } else { 40 };
    let mut by_class: BTreeMap<(u8, u16, u8, u8, bool, bool, bool), Vec<&(Machine, Prog)>> = BTreeMap::new();
    for hp in &all.halted {
        let m = &hp.0;
        let regs = m.registers().content();
        let ok = sp_ok(regs[5], m.stacksize()) && pc_ok(regs[3], m.programsize());
        let sz = SIZES.iter().position(|s| *s == m.stacksize()).unwrap_or(9) as u8;
        let armed = m.bus().is_key_edge_int_enabled();
        let ie = regs[4] & 0x08 != 0;
        by_class.entry((m.state() as u8, m.verif_micro_addr() as u16, m.verif_ir(), sz, ok, armed, ie)).or_default().push(hp);
    }
    let n_classes = by_class.len();
    let chosen: Vec<&(Machine, Prog)> = by_class.values().flat_map(|v| v.iter().take(per_class).cloned()).collect();
    let first_byte = all.first_byte_stop.clone();
    let res = mc::par_map(&chosen, |(m, p)| {
        mc::watch::progress(|| format!("absorb {}", p.line()));
        let (s, t, mut bad) = absorb(m, p);
        let fb = first_byte.get(&digest(m)).cloned().unwrap_or(false);
        if let Some(v) = resume_check(m, p, fb) {
            bad.push(v);
        }
        bad.extend(rerun_after_reset(m, p));
        mc::watch::idle();
        (s, t, bad)
    });
    let mut ab_states = 0u64;
    let mut ab_trans = 0u64;
    for (s, t, bad) in res {
        ab_states += s;
        ab_trans += t;
        for (k, w, l) in bad {
            let e = all.bad.entry(k).or_default();
            if e.len() < 5 {
                e.push((l, w));
            }
        }
    }
    for (k, cases) in &all.bad {
        for (l, w) in cases.iter().take(3) {
            ctx.violation(k.clone(), w.clone(), l.clone());
        }
    }
    ctx.set("states", all.halted.len() as u64 + ab_states + all.runs);
    ctx.set("transitions", all.st.edges + ab_trans);
    ctx.set("traces_validated_against_impl", all.runs);
    ctx.set("evaluations", all.st.edges);
    ctx.set("distinct_nontrivial", all.halted.len());
    ctx.set("rule", "every generated run is clocked edge by edge with the REF-SUP monitor checking the state flip of every edge, alongside a twin machine without limits whose registers, RAM and outputs must be the same up to and including the halting edge; distinct_nontrivial = distinct halted machine states reached (full-state digest); each chosen halted state is the root of a depth-3 BFS over 10 further stimuli");
    ctx.set("exhaustive", true);
    ctx.set("bounds", format!("{} runs: LDSP to all 256 values x 5 walks x 5 sizes; recursion/pop loops x 7 start SPs x 5 sizes; MOV PC / JR to all 256 targets x {} limits; all 256 first bytes and second bytes after 4 prefixes; 23^2 two-instruction sequences x 3 register sets x 5 sizes x 5 limits{}; limits installed by load: 15 programs and all their ordered pairs as second loads (NOSET, empty images); the continue key (once, twice), the interrupt key and an input change before every edge of about 600 halting programs; 5 looping programs for 100 000 monitored edges; absorption BFS depth 3 from {} halted states chosen class-complete from {} classes ({} distinct halted states kept)", n_progs, 256, if quick { "" } else { " + 23^3 three-instruction sequences x 3 register sets x 5 sizes x 2 limits" }, chosen.len(), n_classes, all.halted.len()));
    ctx.set("monitored_edges", all.st.edges);
    ctx.set("error_stops_by_rule", all.st.flips_error_rule);
    ctx.set("error_stops_by_opcode_00", all.st.flips_error_00);
    ctx.set("regular_stops", all.st.flips_stop);
    ctx.set("runs_ending", Json::Arr(vec![Json::Str(format!("Stopped={} ErrorStopped={} Running={}", all.end_states[0], all.end_states[1], all.end_states[2]))]));
    ctx.set("absorption_states", ab_states);
    ctx.set("absorption_transitions", ab_trans);
    ctx.set("distinct_outcomes", 3);
    for p in progs.iter().step_by((n_progs / 6).max(1)).take(6) {
        ctx.sample(format!("{} :: {}", p.name, p.line().chars().take(140).collect::<String>()));
    }
    ctx.set("determinism_selftest", {
        let mut a = Out::default();
        let mut b = Out::default();
        run_prog(&progs[0], &mut a);
        run_prog(&progs[0], &mut b);
        a.st.edges == b.st.edges && a.end_states == b.end_states
    });
    ctx.assume("REF-SUP bands (0xD1-0xDE / 0xC1-0xCE / 0xB1-0xBE / 0xA1-0xAE) frozen from the unmodified tree; SP >= 0xF0 and PC <= limit from the statement");
    ctx.assume("the monitor reads the pending-write / wait / last-bus-read latches through the verif-hooks accessors to know which edge commits a register write or loads the IR");
    ctx.finish();
}
