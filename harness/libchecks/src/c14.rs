//! C14 — MR2DA2 board status: BFS over port writes and external setters against REF-BOARD,
//! plus the clamping rule over (all) f32 bit patterns.
use emulator_2a_lib::machine::Bus;
use mc::{Ctx, Json};
use refmodel::board::{clamp_volt, RBoard};
use std::collections::BTreeMap;

#[derive(Clone, Copy, Debug, PartialEq)]
pub enum Op {
    W(u8, u8),
    Temp(f32),
    Ai1(f32),
    Ai2(f32),
    J1(bool),
    J2(bool),
    Uio(u8, bool),
    Di1(u8),
    /// master reset of the bus the board sits on (second program load): outputs, control register
    /// and directions go to their reset values; what the board reports afterwards follows the same rules
    Reset,
}

fn apply(b: &mut Bus, r: &mut RBoard, op: Op) {
    match op {
        Op::W(a, v) => {
            b.write(a, v);
            r.write(a, v);
        }
        Op::Temp(v) => {
            b.board_mut().set_temp(v);
            r.set_temp(v);
        }
        Op::Ai1(v) => {
            b.board_mut().set_analog_input1(v);
            r.set_ai1(v);
        }
        Op::Ai2(v) => {
            b.board_mut().set_analog_input2(v);
            r.set_ai2(v);
        }
        Op::J1(v) => {
            b.board_mut().set_jumper1(v);
            r.set_j1(v);
        }
        Op::J2(v) => {
            b.board_mut().set_jumper2(v);
            r.set_j2(v);
        }
        Op::Uio(i, v) => {
            match i {
                0 => b.board_mut().set_universal_input_output1(v),
                1 => b.board_mut().set_universal_input_output2(v),
                _ => b.board_mut().set_universal_input_output3(v),
            }
            r.set_uio(i as usize, v);
        }
        Op::Di1(v) => {
            b.board_mut().set_digital_input1(v);
            r.set_di1(v);
        }
        Op::Reset => {
            b.master_reset();
            r.master_reset();
            // the statement does not say what the comparator bits are right after a reset that moved the
            // DACs without an event: they are taken over as they are and judged again from the next event on
            let st = b.read(0xF1);
            r.comp1 = st & 0x08 != 0;
            r.comp2 = st & 0x10 != 0;
        }
    }
}

fn compare(b: &Bus, r: &RBoard) -> Option<(String, String)> {
    let bd = b.board();
    let f1 = b.read(0xF1);
    let e1 = r.read(0xF1);
    if f1 != e1 {
        let diff = f1 ^ e1;
        let field = if diff & 0x18 != 0 {
            "comparator"
        } else if diff & 0x07 != 0 {
            "uio"
        } else if diff & 0xC0 != 0 {
            "jumper"
        } else {
            "fan-bit"
        };
        return Some((format!("status/{}", field), format!("status register 0xF1 is {:#010b}, expected {:#010b}", f1, e1)));
    }
    if b.read(0xF0) != r.read(0xF0) {
        return Some(("digital-input".into(), format!("read(0xF0) is {:#04x}, expected {:#04x}", b.read(0xF0), r.read(0xF0))));
    }
    if b.read(0xF3) != r.read(0xF3) {
        return Some(("interrupt-flags".into(), format!("interrupt status 0xF3 is {:#06b}, expected {:#06b} (control {:#04x})", b.read(0xF3), r.read(0xF3), r.icr)));
    }
    if b.read(0xF2) != r.read(0xF2) {
        return Some(("fan-period".into(), format!("fan period register 0xF2 reads {}, expected 255 - DAC1 byte = {}", b.read(0xF2), r.read(0xF2))));
    }
    if *bd.temp() != r.temp || bd.analog_inputs()[0] != r.ai1 || bd.analog_inputs()[1] != r.ai2 {
        return Some(("clamp".into(), format!("stored voltages temp/ai1/ai2 are {}/{}/{}, expected {}/{}/{}", bd.temp(), bd.analog_inputs()[0], bd.analog_inputs()[1], r.temp, r.ai1, r.ai2)));
    }
    let ao = bd.analog_outputs();
    if ao[0] != r.do1 as f32 / 100.0 || ao[1] != r.do2 as f32 / 100.0 || *bd.digital_output1() != r.do1 || *bd.digital_output2() != r.do2 {
        return Some(("dac".into(), format!("DAC outputs are {:?} (bytes {}/{}), expected byte/100 of {}/{}", ao, bd.digital_output1(), bd.digital_output2(), r.do1, r.do2)));
    }
    if *bd.uio_dir() != r.dir_out {
        return Some(("uio-direction".into(), format!("UIO directions are {:?}, expected {:?}", bd.uio_dir(), r.dir_out)));
    }
    if bd.daicr().bits() != r.icr {
        return Some(("interrupt-control".into(), format!("interrupt control register is {:#04x}, expected {:#04x}", bd.daicr().bits(), r.icr)));
    }
    None
}

fn op_str(o: &Op) -> String {
    match o {
        Op::W(a, v) => format!("w{:02x}:{:02x}", a, v),
        Op::Temp(v) => format!("t{:08x}", v.to_bits()),
        Op::Ai1(v) => format!("a{:08x}", v.to_bits()),
        Op::Ai2(v) => format!("b{:08x}", v.to_bits()),
        Op::J1(v) => format!("j{}", *v as u8),
        Op::J2(v) => format!("k{}", *v as u8),
        Op::Uio(i, v) => format!("u{}{}", i, *v as u8),
        Op::Di1(v) => format!("d{:02x}", v),
        Op::Reset => "m".to_string(),
    }
}

fn line(ops: &[Op]) -> String {
    format!("board ops={}", ops.iter().map(op_str).collect::<Vec<_>>().join(","))
}

fn parse_ops(s: &str) -> Vec<Op> {
    s.split(',')
        .filter(|t| !t.is_empty())
        .map(|t| {
            let (k, rest) = t.split_at(1);
            let f = |x: &str| f32::from_bits(u32::from_str_radix(x, 16).expect("hex"));
            match k {
                "w" => {
                    let (a, v) = rest.split_once(':').unwrap();
                    Op::W(u8::from_str_radix(a, 16).unwrap(), u8::from_str_radix(v, 16).unwrap())
                }
                "t" => Op::Temp(f(rest)),
                "a" => Op::Ai1(f(rest)),
                "b" => Op::Ai2(f(rest)),
                "j" => Op::J1(rest == "1"),
                "k" => Op::J2(rest == "1"),
                "m" => Op::Reset,
                "u" => Op::Uio(rest[..1].parse().unwrap(), &rest[1..] == "1"),
                _ => Op::Di1(u8::from_str_radix(rest, 16).unwrap()),
            }
        })
        .collect()
}

fn run_ops(ops: &[Op]) -> Option<(String, String)> {
    let mut b = Bus::new();
    let mut r = RBoard::new();
    for (i, op) in ops.iter().enumerate() {
        apply(&mut b, &mut r, *op);
        if let Some((k, w)) = compare(&b, &r) {
            return Some((k, format!("after op #{} {:?}: {}", i, op, w)));
        }
    }
    None
}

fn alphabet(quick: bool) -> Vec<Op> {
    let mut v = vec![];
    for b in [0u8, 1, 100, 255] {
        v.push(Op::W(0xF0, b));
        v.push(Op::W(0xF1, b));
    }
    // UOR (00xxxxxx), UDR (10xxxxxx): all 8 pin patterns
    for p in 0..8u8 {
        if !quick || p == 0 || p == 2 || p == 5 || p == 7 {
            v.push(Op::W(0xF2, p));
            v.push(Op::W(0xF2, 0x80 | p));
        }
    }
    v.push(Op::W(0xF2, 0x40)); // ignored class
    // ICR: every source x rising/falling, IE/EDGE variants
    for src in 0..8u8 {
        v.push(Op::W(0xF2, 0xC0 | src));
        v.push(Op::W(0xF2, 0xC0 | 0x08 | src));
    }
    v.push(Op::W(0xF2, 0xC0 | 0x20 | 0x10 | 0x04));
    v.push(Op::W(0xF3, 0x00));
    for b in [true, false] {
        v.push(Op::J1(b));
        v.push(Op::J2(b));
        for i in 0..3 {
            v.push(Op::Uio(i, b));
        }
    }
    v.push(Op::Di1(0));
    v.push(Op::Di1(0xA5));
    v.push(Op::Reset);
    let volts: Vec<f32> = if quick {
        vec![0.0, 0.01, 0.998, 1.002, 2.55, 2.56, 7.0, -1.0, f32::NAN]
    } else {
        vec![0.0, 0.005, 0.008, 0.012, 0.998, 1.0, 1.002, 2.548, 2.552, 5.0, 7.0, -1.0, f32::NAN, f32::INFINITY]
    };
    for x in volts {
        v.push(Op::Temp(x));
        v.push(Op::Ai1(x));
        v.push(Op::Ai2(x));
    }
    v
}

/// Comparator thresholds: for every DAC byte and each analog setter, the input walks up and down
/// through the DAC voltage in steps of different size (1 ulp .. 0.3 V), the status is compared after
/// every step; repeated for every interrupt source/edge selection of the comparators.
fn threshold_sweep() -> (u64, Vec<(String, String, String)>) {
    let res = mc::par_ranges(256, 64, |rg| {
        let mut bad: Vec<(String, String, String)> = vec![];
        let mut n = 0u64;
        for byte in rg {
            let byte = byte as u8;
            let v = byte as f32 / 100.0;
            let ulp = |x: f32, k: i32| f32::from_bits((x.to_bits() as i32 + k).max(0) as u32);
            let mut walk: Vec<f32> = vec![];
            for d in [0.3f32, 0.011, 0.004, 0.002, 0.0004] {
                walk.extend([v - d, v + d, v - d / 2.0, v, v + d / 2.0, v]);
            }
            walk.extend([ulp(v, -1), ulp(v, 1), v, ulp(v, 2), ulp(v, -2), 0.0, 5.0, v]);
            for setter in 0..3u8 {
                for icr in [0x00u8, 0xC4, 0xCC, 0xC5, 0xCD] {
                    let mut ops = vec![Op::W(0xF0, byte), Op::W(0xF1, byte)];
                    if icr != 0 {
                        ops.push(Op::W(0xF2, icr));
                    }
                    for x in &walk {
                        ops.push(match setter {
                            0 => Op::Temp(*x),
                            1 => Op::Ai1(*x),
                            _ => Op::Ai2(*x),
                        });
                        // clear the flip-flop now and then so that every later edge is visible again
                        if ops.len() % 5 == 0 {
                            ops.push(Op::W(0xF3, 0));
                        }
                    }
                    n += ops.len() as u64;
                    if let Some((k, w)) = run_ops(&ops) {
                        if bad.len() < 4 {
                            bad.push((k, w, line(&ops)));
                        }
                    }
                }
            }
        }
        (n, bad)
    });
    let mut n = 0;
    let mut bad = vec![];
    for (c, b) in res {
        n += c;
        for x in b {
            if bad.len() < 6 {
                bad.push(x);
            }
        }
    }
    (n, bad)
}

/// Every byte value at every port: from each of a set of prior board states, (1) write(port, v) for
/// the four ports and all 256 values, each followed by every external event; (2) every ordered pair
/// of writes to the control port 0xF2 (all 65 536), then two external events; compared with
/// REF-BOARD after every operation.
fn port_value_sweep(full: bool) -> (u64, Vec<(String, String, String)>) {
    let priors: Vec<Vec<Op>> = vec![
        vec![],
        vec![Op::Uio(0, true), Op::Uio(2, true), Op::J1(true), Op::Ai1(1.5), Op::Temp(3.0)],
        vec![Op::W(0xF2, 0x85), Op::W(0xF2, 0x02), Op::Uio(1, true), Op::J2(true), Op::W(0xF0, 120), Op::W(0xF1, 200), Op::Ai1(1.3), Op::Ai2(1.9)],
        vec![Op::W(0xF2, 0xC9), Op::Uio(0, true), Op::W(0xF2, 0xC6), Op::J1(true), Op::J1(false), Op::Di1(0x5A)],
        vec![Op::W(0xF2, 0x87), Op::W(0xF2, 0x07), Op::W(0xF2, 0xCB), Op::W(0xF0, 255), Op::W(0xF1, 1), Op::Ai1(5.0), Op::Ai2(0.0)],
        // a board that lived, then went through a master reset with its analog inputs still applied
        vec![Op::Ai1(1.3), Op::Ai2(1.9), Op::W(0xF0, 200), Op::W(0xF1, 250), Op::W(0xF2, 0xE4), Op::W(0xF2, 0x83), Op::Reset],
    ];
    let events: Vec<Op> = vec![
        Op::J1(true), Op::J1(false), Op::J2(true), Op::Uio(0, true), Op::Uio(0, false), Op::Uio(1, true), Op::Uio(1, false), Op::Uio(2, true), Op::Uio(2, false),
        Op::Ai1(1.25), Op::Ai1(0.0), Op::Ai2(2.0), Op::Temp(2.1), Op::W(0xF3, 0), Op::W(0xF0, 100), Op::W(0xF1, 100),
    ];
    let n1 = priors.len() * 4 * 256;
    let n2 = if full { priors.len() * 65536 } else { 2 * 65536 };
    let res = mc::par_ranges(n1 + n2, 512, |rg| {
        let mut bad: Vec<(String, String, String)> = vec![];
        let mut n = 0u64;
        let mut try_ops = |ops: &[Op], n: &mut u64, bad: &mut Vec<(String, String, String)>| {
            *n += ops.len() as u64;
            if let Some((k, w)) = run_ops(ops) {
                if bad.len() < 4 {
                    bad.push((k, w, line(ops)));
                }
            }
        };
        for i in rg {
            if i < n1 {
                let (pi, rest) = (i / 1024, i % 1024);
                let (port, v) = (0xF0 + (rest / 256) as u8, (rest % 256) as u8);
                for e in &events {
                    let mut ops = priors[pi].clone();
                    ops.push(Op::W(port, v));
                    ops.push(*e);
                    // the complementary level afterwards, so that both transitions of the event are seen
                    ops.push(match *e {
                        Op::J1(b) => Op::J1(!b),
                        Op::J2(b) => Op::J2(!b),
                        Op::Uio(k, b) => Op::Uio(k, !b),
                        Op::Ai1(_) => Op::Ai1(4.9),
                        Op::Ai2(_) => Op::Ai2(4.9),
                        Op::Temp(_) => Op::Temp(4.9),
                        other => other,
                    });
                    try_ops(&ops, &mut n, &mut bad);
                }
            } else {
                let j = i - n1;
                let (pi, rest) = (j / 65536, j % 65536);
                let (v1, v2) = ((rest >> 8) as u8, (rest & 0xFF) as u8);
                let mut ops = priors[if full { pi } else { pi + 1 }].clone();
                ops.extend([Op::W(0xF2, v1), Op::W(0xF2, v2), Op::Uio((v1 % 3) as u8, v2 & 1 == 0), Op::J1(v1 & 1 == 0), Op::Uio((v2 % 3) as u8, v1 & 2 == 0)]);
                try_ops(&ops, &mut n, &mut bad);
            }
        }
        (n, bad)
    });
    let mut n = 0;
    let mut bad = vec![];
    for (c, b) in res {
        n += c;
        for x in b {
            if bad.len() < 8 {
                bad.push(x);
            }
        }
    }
    (n, bad)
}

/// The board of a machine created with a configuration (the way the CLI and the TUI start it):
/// every combination of a grid of configuration values must show the status REF-BOARD gives for
/// the same external inputs, and go on agreeing under a few port writes and input changes.
fn configured_boards() -> (u64, Vec<(String, String, String)>) {
    use emulator_2a_lib::machine::{Machine, MachineConfig};
    let volts = [0.0f32, 1.0, 3.0, 7.0, f32::NAN];
    let mut cfgs = vec![];
    for &temp in &volts {
        for &a1 in &volts {
            for &a2 in &volts {
                for bits in 0..32u8 {
                    cfgs.push(MachineConfig {
                        temp,
                        analog_input1: a1,
                        analog_input2: a2,
                        jumper1: bits & 1 != 0,
                        jumper2: bits & 2 != 0,
                        universal_input_output1: bits & 4 != 0,
                        universal_input_output2: bits & 8 != 0,
                        universal_input_output3: bits & 16 != 0,
                        digital_input1: bits.wrapping_mul(37),
                        ..Default::default()
                    });
                }
            }
        }
    }
    let follow = [Op::W(0xF1, 150), Op::W(0xF0, 250), Op::W(0xF2, 0xC5), Op::Ai2(0.5), Op::Temp(0.2), Op::W(0xF2, 0x83), Op::Uio(2, false), Op::J1(false)];
    let res = mc::par_ranges(cfgs.len(), 64, |rg| {
        let mut bad = vec![];
        let mut n = 0u64;
        for i in rg {
            let c = &cfgs[i];
            let label = format!("config temp={} ai1={} ai2={} j1={} j2={} uio={}{}{} di1={:#04x}", c.temp, c.analog_input1, c.analog_input2, c.jumper1 as u8, c.jumper2 as u8, c.universal_input_output1 as u8, c.universal_input_output2 as u8, c.universal_input_output3 as u8, c.digital_input1);
            let r = mc::catch(|| {
                let m = Machine::new(c.clone());
                let mut b = m.bus().clone();
                let mut r = RBoard::new();
                r.set_di1(c.digital_input1);
                r.set_temp(c.temp);
                r.set_j1(c.jumper1);
                r.set_j2(c.jumper2);
                r.set_ai1(c.analog_input1);
                r.set_ai2(c.analog_input2);
                r.set_uio(0, c.universal_input_output1);
                r.set_uio(1, c.universal_input_output2);
                r.set_uio(2, c.universal_input_output3);
                // interrupt flags raised while the inputs were connected are not part of the comparison
                // of the start state (the order of connection is not specified); cleared on both sides
                b.write(0xF3, 0);
                r.write(0xF3, 0);
                let mut cnt = 1u64;
                if let Some((k, w)) = compare(&b, &r) {
                    return (cnt, Some((k, format!("board of a machine created with this configuration: {}", w))));
                }
                for op in follow {
                    apply(&mut b, &mut r, op);
                    cnt += 1;
                    if let Some((k, w)) = compare(&b, &r) {
                        return (cnt, Some((k, format!("configured board after {:?}: {}", op, w))));
                    }
                }
                (cnt, None)
            });
            match r {
                Ok((c2, v)) => {
                    n += c2;
                    if let Some((k, w)) = v {
                        if bad.len() < 4 {
                            bad.push((format!("configured/{}", k), w, label));
                        }
                    }
                }
                Err(p) => {
                    if bad.len() < 4 {
                        bad.push((format!("panic/{}", p.file()), format!("panic at {}: {}", p.site(), p.msg), label));
                    }
                }
            }
        }
        (n, bad)
    });
    let mut n = 0;
    let mut bad = vec![];
    for (c, b) in res {
        n += c;
        for x in b {
            if bad.len() < 6 {
                bad.push(x);
            }
        }
    }
    (n, bad)
}

/// Long traces: 16 fixed sequences of 30 000 operations each (the alphabet walked with 16 strides),
/// compared with REF-BOARD after every operation - how long a board lives is not bounded by the BFS depth.
fn long_traces(alpha: &[Op]) -> (u64, Vec<(String, String, String)>) {
    let res = mc::par_ranges(16, 16, |rg| {
        let mut bad = vec![];
        let mut n = 0u64;
        for t in rg {
            let r = mc::catch(|| {
                let mut b = Bus::new();
                let mut r = RBoard::new();
                let stride = 2 * t + 1;
                let mut recent: Vec<Op> = vec![];
                let mut cnt = 0u64;
                for i in 0..30_000usize {
                    let op = alpha[(i * stride + i / 19 + t) % alpha.len()];
                    recent.push(op);
                    if recent.len() > 12 {
                        recent.remove(0);
                    }
                    apply(&mut b, &mut r, op);
                    cnt += 1;
                    if let Some((k, w)) = compare(&b, &r) {
                        return (cnt, Some((format!("long-trace/{}", k), format!("operation #{} of long trace {} (the replay line holds the last 12 operations, from a new board): {}", i, t, w), line(&recent))));
                    }
                }
                (cnt, None)
            });
            match r {
                Ok((c, v)) => {
                    n += c;
                    if let Some(x) = v {
                        bad.push(x);
                    }
                }
                Err(p) => bad.push((format!("panic/{}", p.file()), format!("long trace {}: panic at {}: {}", t, p.site(), p.msg), "board ops=".to_string())),
            }
        }
        (n, bad)
    });
    let mut n = 0;
    let mut bad = vec![];
    for (c, b) in res {
        n += c;
        bad.extend(b);
    }
    bad.truncate(6);
    (n, bad)
}

/// The clamping rule over f32 bit patterns through each of the three analog setters.
fn f32_sweep(full: bool) -> (u64, Vec<(String, String, String)>) {
    // quick: every sign x exponent (2^9) x every value of the 12 leading mantissa bits, trailing 11 bits all-0 and all-1
    let n: u64 = if full { 1u64 << 32 } else { 1u64 << 22 };
    let res = mc::par_ranges(n as usize, 1024, |rg| {
        let mut bad: Vec<(String, String, String)> = vec![];
        let mut b = Bus::new();
        b.write(0xF0, 100);
        b.write(0xF1, 100);
        let mut cnt = 0u64;
        for i in rg {
            let bits: u32 = if full {
                i as u32
            } else {
                let hi = (i as u32 >> 1) << 11;
                if i & 1 == 1 { hi | 0x7FF } else { hi }
            };
            let v = f32::from_bits(bits);
            let e = clamp_volt(v);
            cnt += 3;
            let bd = b.board_mut();
            bd.set_temp(v);
            bd.set_analog_input1(v);
            bd.set_analog_input2(v);
            let ok = *bd.temp() == e && bd.analog_inputs()[0] == e && bd.analog_inputs()[1] == e && !bd.temp().is_nan();
            // comparator bits against the 1.00 V DAC levels
            let st = b.read(0xF1);
            let exp_c = e > 1.0;
            let ok2 = ((st & 0x08) != 0) == exp_c && ((st & 0x10) != 0) == exp_c;
            if (!ok || !ok2) && bad.len() < 4 {
                let bd = b.board();
                bad.push((
                    if !ok { "clamp/f32".into() } else { "status/comparator".into() },
                    format!("voltage bits {:#010x} ({}): stored temp/ai1/ai2 = {}/{}/{} expected {}; status {:#010b}", bits, v, bd.temp(), bd.analog_inputs()[0], bd.analog_inputs()[1], e, st),
                    format!("board ops=w{:02x}:{:02x},w{:02x}:{:02x},t{:08x},a{:08x},b{:08x}", 0xF0, 100, 0xF1, 100, bits, bits, bits),
                ));
            }
        }
        (cnt, bad)
    });
    let mut cnt = 0;
    let mut bad = vec![];
    for (c, b) in res {
        cnt += c;
        for x in b {
            if bad.len() < 8 {
                bad.push(x);
            }
        }
    }
    (cnt, bad)
}

pub fn run() {
    let mut ctx = Ctx::from_args("model_checking");
    if let Some(f) = ctx.replay_file.clone() {
        let text = std::fs::read_to_string(&f).expect("replay file");
        let kv = mc::kv(text.lines().next().unwrap_or(""));
        if !kv.contains_key("ops") {
            // configured boards / f32 patterns: the families take a second, re-run them
            let (_, bad) = configured_boards();
            for (k, w, l) in bad {
                println!("{} :: {} :: {}", k, l, w);
                ctx.violation(k, w, l);
            }
            ctx.finish();
        }
        let ops = parse_ops(&kv["ops"]);
        let r = run_ops(&ops);
        println!("{:?} -> {:?}", ops, r);
        if let Some((k, w)) = r {
            ctx.violation(k, w, text.clone());
        }
        ctx.finish();
    }
    let quick = ctx.quick();
    // measured: the depth-4 BFS over the full alphabet takes a few seconds, so both tiers run it;
    // the tiers differ in the f32 sweep (2^22 vs all 2^32 patterns) and the control-port pair sweep
    let alpha = alphabet(false);
    let depth = 4;
    #[derive(Clone)]
    struct Node {
        b: Bus,
        r: RBoard,
        hist: Vec<Op>,
        bad: bool,
    }
    let starts: Vec<Vec<Op>> = vec![
        vec![],
        vec![Op::W(0xF0, 150), Op::W(0xF1, 30), Op::Ai1(2.0), Op::Temp(0.2), Op::W(0xF2, 0x82), Op::J1(true)],
        vec![Op::W(0xF2, 0xC0 | 0x08 | 0x04), Op::Ai1(4.0), Op::W(0xF2, 0x07), Op::Di1(0x3C)],
    ];
    let bad_nodes = std::sync::Mutex::new(Vec::<(String, Vec<Op>, String)>::new());
    let init: Vec<Node> = starts
        .iter()
        .map(|ops| {
            let mut b = Bus::new();
            let mut r = RBoard::new();
            for o in ops {
                apply(&mut b, &mut r, *o);
            }
            Node { b, r, hist: ops.clone(), bad: false }
        })
        .collect();
    for n in &init {
        if let Some((k, w)) = compare(&n.b, &n.r) {
            bad_nodes.lock().unwrap().push((k, n.hist.clone(), w));
        }
    }
    let stats = mc::bfs(
        init,
        depth,
        if quick { 3_000_000 } else { 40_000_000 },
        // the key is the reference state AND the real board (derived Debug shows every field, also ones
        // added later): two paths that agree on everything observable but leave the implementation in
        // different hidden states are both expanded
        |n: &Node| (n.r.key(), mc::fnv(format!("{:?}", n.b.board()).as_bytes()), n.bad),
        |n, _d| {
            if n.bad {
                return vec![];
            }
            alpha
                .iter()
                .map(|op| {
                    let mut m = n.clone();
                    m.hist.push(*op);
                    let r = mc::catch(|| {
                        let mut b = m.b.clone();
                        let mut r = m.r.clone();
                        apply(&mut b, &mut r, *op);
                        let e = compare(&b, &r);
                        (b, r, e)
                    });
                    let e = match r {
                        Ok((b, r, e)) => {
                            m.b = b;
                            m.r = r;
                            e
                        }
                        Err(p) => Some((format!("panic/{}", p.file()), format!("panic at {}: {}", p.site(), p.msg))),
                    };
                    if let Some((k, w)) = e {
                        m.bad = true;
                        let mut g = bad_nodes.lock().unwrap();
                        if g.len() < 400 {
                            g.push((k, m.hist.clone(), format!("after {:?}: {}", op, w)));
                        }
                    }
                    m
                })
                .collect()
        },
        |_, _| {},
    );
    let mut bad: BTreeMap<String, (u64, Vec<(String, String)>)> = BTreeMap::new();
    let mut nodes = bad_nodes.into_inner().unwrap();
    nodes.sort_by_key(|n| n.1.len());
    for (k, ops, w) in nodes {
        let e = bad.entry(k).or_default();
        e.0 += 1;
        if e.1.len() < 3 {
            e.1.push((line(&ops), w));
        }
    }
    // fan period law for all 256 DAC bytes (complete)
    let mut fan_points = 0u64;
    for byte in 0..=255u8 {
        fan_points += 1;
        if let Some((k, w)) = run_ops(&[Op::W(0xF0, byte)]) {
            let e = bad.entry(k).or_default();
            e.0 += 1;
            if e.1.len() < 3 {
                e.1.push((line(&[Op::W(0xF0, byte)]), w));
            }
        }
    }
    let (thr_ops, thr_bad) = threshold_sweep();
    for (k, w, l) in thr_bad {
        let e = bad.entry(k).or_default();
        e.0 += 1;
        if e.1.len() < 3 {
            e.1.push((l, w));
        }
    }
    let (lt_ops, lt_bad) = long_traces(&alpha);
    for (k, w, l) in lt_bad {
        let e = bad.entry(k).or_default();
        e.0 += 1;
        if e.1.len() < 3 {
            e.1.push((l, w));
        }
    }
    ctx.set("long_trace_operations", lt_ops);
    let (cfg_ops, cfg_bad) = configured_boards();
    for (k, w, l) in cfg_bad {
        let e = bad.entry(k).or_default();
        e.0 += 1;
        if e.1.len() < 3 {
            e.1.push((l, w));
        }
    }
    ctx.set("configured_board_operations", cfg_ops);
    let (pv_ops, pv_bad) = port_value_sweep(!quick);
    for (k, w, l) in pv_bad {
        let e = bad.entry(k).or_default();
        e.0 += 1;
        if e.1.len() < 3 {
            e.1.push((l, w));
        }
    }
    ctx.set("port_value_sweep_operations", pv_ops);
    let (f32_calls, f32_bad) = f32_sweep(!quick);
    for (k, w, l) in f32_bad {
        let e = bad.entry(k).or_default();
        e.0 += 1;
        if e.1.len() < 3 {
            e.1.push((l, w));
        }
    }
    for (k, (n, cases)) in &bad {
        for (l, w) in cases.iter().take(3) {
            ctx.violation(k.clone(), format!("{} ({} cases in class)", w, n), l.clone());
        }
    }
    if stats.cap_hit {
        ctx.machinery_error(format!("BFS state cap hit at depth {} ({} states)", stats.depth_completed, stats.states));
    }
    ctx.set("states", stats.states);
    ctx.set("transitions", stats.transitions);
    ctx.set("traces_validated_against_impl", stats.transitions as u64 + fan_points + f32_calls + thr_ops);
    ctx.set("threshold_sweep_operations", thr_ops);
    ctx.set("evaluations", stats.transitions as u64 + fan_points + f32_calls + pv_ops + thr_ops);
    ctx.set("distinct_nontrivial", stats.states);
    ctx.set("rule", "BFS from 3 start boards: every sequence of the operation alphabet (port writes, external setters, master reset of the bus) to the depth, deduplicated on the derived Debug of the real board; after every operation reads of 0xF0-0xF3 and all getters named in the statement are compared with REF-BOARD; f32: every enumerated bit pattern through the three analog setters against the clamp rule and the comparator bits; fan period for all 256 DAC bytes; threshold sweep: for every DAC byte x 3 analog setters x 5 comparator interrupt selections the input walks up and down through the DAC voltage in steps from 0.3 V to 1 ulp; port values: every byte value written to each of the four ports from 6 prior board states (one after a master reset with analog inputs applied), each followed by every external event and its complement, and every ordered pair of writes to the control port 0xF2 followed by three external events");
    ctx.set("exhaustive", !stats.cap_hit);
    ctx.set("bounds", format!("BFS depth {} over {} operations; f32 patterns: {}", depth, alpha.len(), if quick { "2^22 (every sign x exponent x 12 leading mantissa bits, trailing bits all-0 and all-1)" } else { "all 2^32" }));
    ctx.set("bfs_frontiers", Json::Arr(stats.frontier_sizes.iter().map(|n| Json::Int(*n as i64)).collect()));
    ctx.set("f32_setter_calls", f32_calls);
    ctx.set("distinct_outcomes", stats.states);
    ctx.sample(line(&starts[1]));
    ctx.sample(line(&alpha[..6]));
    ctx.set("determinism_selftest", run_ops(&starts[2]) == run_ops(&starts[2]));
    ctx.assume("REF-BOARD (refmodel/src/board.rs) written from the statement; frozen corners: UOR writes drive the UIO status bits regardless of direction, the FAN bit is set by any write to 0xF0, the flip-flop is raised regardless of the IE bit; fan rpm is not compared");
    ctx.finish();
}
