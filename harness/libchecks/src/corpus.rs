//! Source-text generators shared by C02/C03/C06/C16: finite, fully enumerated families
//! (products of complete factors), never samples.
use std::collections::BTreeSet;

pub const HDR: &str = "#! mrasm\n";

pub fn byte_tokens() -> Vec<&'static str> {
    vec![
        "0", "00", "7", "007", "42", "99", "100", "199", "200", "249", "250", "255", "256", "0255", "00256", "260", "300", "999", "1000",
        "0x0", "0x00", "0x000", "0xF", "0xFF", "0xff", "0x0FF", "0x00FF", "0x100", "0x0100", "0xG", "0X1", "0x", "0b0", "0b1", "0b00", "0b11111111", "0b011111111",
        "0b111111111", "0b0000000011111111", "0b100000000", "0b2", "0B1", "0b", "-1", "1.5", "1e2", "0o7", "$FF", "FFh",
    ]
}

pub fn word_tokens() -> Vec<&'static str> {
    vec![
        "0", "000", "9", "10", "99", "100", "999", "1000", "9999", "10000", "59999", "60000", "64999", "65000", "65499", "65500", "65529", "65530", "65535", "65536", "065535", "0065536", "70000", "99999", "100000",
        "0x0", "0xFFFF", "0xffff", "0x0FFFF", "0x10000", "0x12345", "0xG", "0b0", "0b1111111111111111", "0b01111111111111111", "0b11111111111111111", "0b10000000000000000", "0b2",
    ]
}

pub fn reg_tokens() -> Vec<&'static str> {
    vec!["R0", "R1", "R2", "R3", "r0", "r3", "PC", "pc", "Pc", "R4", "R", "R00", "R0x", "SP", "RO"]
}

pub fn label_tokens() -> Vec<&'static str> {
    // LBL and lbl2 are defined by the wrapper program
    vec!["LBL", "lbl", "Lbl", "lbl2", "UNDEF", "_x", "x9", "x_9_y", "9x", "Rx", "rx", "PCX", "pcx", "SPOT", "spam", "Spx", "A", "loop", "a-b", "a.b", "é", "LBL:", "R0", "PC", ""]
}

pub fn src_tokens() -> Vec<String> {
    let mut v: Vec<String> = vec![];
    for r in ["R0", "R3", "r1", "PC", "pc", "R4", "SP"] {
        v.push(r.to_string());
        v.push(format!("({})", r));
        v.push(format!("({}+)", r));
        v.push(format!("(({}+))", r));
    }
    for s in ["( R0)", "(R0 )", "(R0 +)", "((R0)+)", "(R0++)", "(R0+", "R0+)", "((R0+)", "(R0+))", "(((R0+)))", "()", "(+)", "(R0)+", "[R0]"] {
        v.push(s.to_string());
    }
    for n in ["0", "255", "256", "0xFF", "0x100", "0b101", "0b111111111", "007"] {
        v.push(n.to_string());
        v.push(format!("({})", n));
    }
    for l in ["LBL", "lbl", "UNDEF", "Rx", "_x", "PCX"] {
        v.push(l.to_string());
        v.push(format!("({})", l));
    }
    v.push("(0x12".into());
    v.push("((0x12))".into());
    v.push("((LBL))".into());
    v
}

pub fn dst_tokens() -> Vec<String> {
    // destinations: same shapes; immediates are rejected there by the language
    src_tokens()
}

pub fn case_variants(m: &str) -> Vec<String> {
    let mut v = vec![m.to_uppercase(), m.to_lowercase()];
    let mixed: String = m.chars().enumerate().map(|(i, c)| if i % 2 == 0 { c.to_ascii_uppercase() } else { c.to_ascii_lowercase() }).collect();
    if !v.contains(&mixed) {
        v.push(mixed);
    }
    v
}

pub const SEP_IP: [&str; 5] = [" ", "\t", "  ", " \t ", ""];
pub const SEP_PP: [&str; 6] = [",", ", ", ",\t", ",  ", " ,", " , "];

/// Wrap one instruction line into a complete program that defines LBL and lbl2.
pub fn wrap(line: &str) -> String {
    format!("{}LBL:\n{}\n.EQU lbl2 7\n", HDR, line)
}

pub const ONE_REG: [&str; 12] = ["CLR", "INC", "NEG", "COM", "TST", "LSR", "ASR", "LSL", "RRC", "RLC", "PUSH", "POP"];
pub const TWO_REGS: [&str; 8] = ["ADD", "ADC", "SUB", "MUL", "DIV", "AND", "OR", "XOR"];
pub const DST_SRC: [&str; 5] = ["MOV", "CMP", "BITT", "BITS", "BITC"];
pub const SRC_ONLY: [&str; 3] = ["DEC", "LDSP", "LDFR"];
pub const LABEL_OPS: [&str; 9] = ["JMP", "JCS", "JCC", "JZS", "JZC", "JNS", "JNC", "JR", "CALL"];
pub const NO_OPS: [&str; 8] = ["PUSHF", "POPF", "RET", "RETI", "STOP", "NOP", "EI", "DI"];

/// (a) grammar-bounded sentences: instruction lines (not yet wrapped).
pub fn sentence_lines(full: bool) -> Vec<String> {
    let mut out: BTreeSet<String> = BTreeSet::new();
    let regs = reg_tokens();
    let seps_ip: &[&str] = if full { &SEP_IP } else { &SEP_IP[..3] };
    let seps_ip_one: &[&str] = &SEP_IP[..1];
    // one register
    for m in ONE_REG {
        for mv in case_variants(m) {
            for s in seps_ip {
                for r in &regs {
                    out.insert(format!("{}{}{}", mv, s, r));
                }
            }
        }
        out.insert(format!("{} R0, R1", m));
        out.insert(format!("{}", m));
        out.insert(format!("{} 5", m));
        out.insert(format!("{} (R0)", m));
    }
    // two registers
    for m in TWO_REGS {
        for mv in case_variants(m) {
            for pp in SEP_PP {
                for a in &regs {
                    for b in ["R0", "R3", "PC", "r1", "R4", "pc"] {
                        out.insert(format!("{} {}{}{}", mv, a, pp, b));
                    }
                }
            }
        }
        out.insert(format!("{} R0", m));
        out.insert(format!("{} R0,", m));
        out.insert(format!("{} R0, R1, R2", m));
        out.insert(format!("{} R0 R1", m));
        out.insert(format!("{} R0, 5", m));
        out.insert(format!("{} (R0), R1", m));
    }
    // destination, source
    let srcs = src_tokens();
    let dsts = dst_tokens();
    for m in DST_SRC {
        for d in &dsts {
            for s in &srcs {
                out.insert(format!("{} {}, {}", m, d, s));
            }
        }
        for mv in case_variants(m) {
            for ip in seps_ip {
                for pp in SEP_PP {
                    out.insert(format!("{}{}(R1+){}((R2+))", mv, ip, pp));
                    out.insert(format!("{}{}R0{}0x10", mv, ip, pp));
                }
            }
        }
        out.insert(format!("{} R0", m));
        out.insert(format!("{} R0,", m));
        out.insert(format!("{}", m));
    }
    // source only
    for m in SRC_ONLY {
        for mv in case_variants(m) {
            for ip in seps_ip_one {
                for s in &srcs {
                    out.insert(format!("{}{}{}", mv, ip, s));
                }
            }
        }
        for ip in seps_ip {
            out.insert(format!("{}{}R1", m, ip));
        }
        out.insert(format!("{}", m));
        out.insert(format!("{} R0, R1", m));
    }
    // LD / ST
    for mv in case_variants("LD") {
        for r in &regs {
            for s in &srcs {
                out.insert(format!("{} {}, {}", mv, r, s));
            }
        }
    }
    for mv in case_variants("ST") {
        for d in &dsts {
            for r in ["R0", "R3", "PC", "r2", "R4", "5", "(R0)"] {
                out.insert(format!("{} {}, {}", mv, d, r));
            }
        }
    }
    for n in byte_tokens() {
        out.insert(format!("LD R0, {}", n));
        out.insert(format!("LD R1, ({})", n));
        out.insert(format!("ST ({}), R2", n));
        out.insert(format!("MOV R0, {}", n));
        out.insert(format!("CMP ({}), {}", n, n));
        out.insert(format!("LDSP {}", n));
    }
    // label operands
    for m in LABEL_OPS {
        for mv in case_variants(m) {
            for ip in seps_ip {
                for l in label_tokens() {
                    out.insert(format!("{}{}{}", mv, ip, l));
                }
            }
        }
        out.insert(format!("{} LBL, LBL", m));
        out.insert(format!("{} 5", m));
        out.insert(format!("{} (LBL)", m));
    }
    // no operands
    for m in NO_OPS {
        for mv in case_variants(m) {
            out.insert(mv.clone());
            out.insert(format!("{} ", mv));
            out.insert(format!("{}X", mv));
            out.insert(format!("{} R0", mv));
            out.insert(format!("{}:", mv));
            out.insert(format!("{};c", mv));
            out.insert(format!("{} ; c", mv));
        }
    }
    // directives
    for d in [".ORG", ".BYTE"] {
        for dv in case_variants(d) {
            for ip in seps_ip {
                for n in byte_tokens() {
                    out.insert(format!("{}{}{}", dv, ip, n));
                }
            }
        }
        out.insert(format!("{} LBL", d));
        out.insert(format!("{} 1, 2", d));
        out.insert(format!("{}", d));
    }
    for dv in case_variants(".DB") {
        for n in byte_tokens() {
            out.insert(format!("{} {}", dv, n));
            out.insert(format!("{} 1, {}", dv, n));
            out.insert(format!("{} {},2", dv, n));
        }
        for pp in SEP_PP {
            out.insert(format!("{} 1{}2{}0xFF", dv, pp, pp));
        }
        out.insert(format!("{} 1,", dv));
        out.insert(format!("{} ,1", dv));
        out.insert(format!("{} 1 2", dv));
        out.insert(format!("{} LBL", dv));
        out.insert(format!("{}", dv));
    }
    for dv in case_variants(".DW") {
        for n in word_tokens() {
            out.insert(format!("{} {}", dv, n));
            out.insert(format!("{} 1, {}", dv, n));
        }
        for pp in SEP_PP {
            out.insert(format!("{} 1{}65535{}0xFFFF", dv, pp, pp));
        }
        out.insert(format!("{} 1,", dv));
        out.insert(format!("{}", dv));
    }
    for dv in case_variants(".EQU") {
        for name in label_tokens() {
            out.insert(format!("{} {} 5", dv, name));
        }
        for n in byte_tokens() {
            out.insert(format!("{} name {}", dv, n));
        }
        for ip in SEP_IP {
            out.insert(format!("{}{}name{}5", dv, ip, ip));
        }
        out.insert(format!("{} name, 5", dv));
        out.insert(format!("{} name", dv));
        out.insert(format!("{} name 5 6", dv));
    }
    for dv in case_variants("*STACKSIZE") {
        for v in ["0", "16", "32", "48", "64", "NOSET", "noset", "NoSet", "8", "016", "160", "64 ", "-16", "AUTO", "0x10", ""] {
            for ip in seps_ip {
                out.insert(format!("{}{}{}", dv, ip, v));
            }
        }
    }
    for dv in case_variants("*PROGRAMSIZE") {
        for v in ["AUTO", "auto", "Auto", "NOSET", "noset", "0", "1", "10", "255", "256", "0255", "0x10", "0b1", "AUTOX", "LBL", ""] {
            for ip in seps_ip {
                out.insert(format!("{}{}{}", dv, ip, v));
            }
        }
    }
    for junk in ["STACKSIZE 16", "* STACKSIZE 16", "ORG 5", ". ORG 5", ".ORGX 5", "MOVE R0, R1", "LOAD R0, 5", "HLT", "JMPX LBL", "NOP NOP", "NOP\tNOP", "LBL2: NOP", "NOP LBL3:", "LD", "ST", "JR", "R0", "PC", "0x10", "(R0)", ",", "+", ":", "::", "L::", "é:", "_:", "_9:", "x y:", "x :", "x: y:"] {
        out.insert(junk.to_string());
    }
    out.into_iter().collect()
}

/// (b) line shapes x line terminators x header variants: complete programs.
pub fn shape_programs() -> Vec<String> {
    let mut out: BTreeSet<String> = BTreeSet::new();
    let bodies = [
        "", " ", "\t", "   ", ";", "; c", ";c", " ; c ", ";;; c ;;;", ";\tc\t", "; é 語 ;", "L1:", "L1: ; c", "L1:;c", " L1:", "\tL1: ", "L1 :", "NOP", " NOP", "NOP ", "NOP;c", "NOP ; c", "\tNOP\t;\tc",
        "L1: NOP", "NOP L1:", "NOP NOP", "NOP ; c ; d", "L1: L2:", "INC R0 ; inc", "  INC   R0   ;   inc  ",
    ];
    let terms = ["\n", "\r\n", "\r", ""];
    let headers = [
        "#! mrasm", "#! mrasm ", "#! mrasm\t", "#! mrasm  ", "#! mrasm ; c", "#! mrasm; c", "#! mrasm ;", "#! mrasm  ; c", "#!mrasm", "#! MRASM", "#!  mrasm", " #! mrasm", "#! mrasm x", "#! mrasmx", "", "# mrasm", "#! mrasm ; é",
        "\u{feff}#! mrasm",
    ];
    for h in headers {
        for t in terms {
            out.insert(format!("{}{}", h, t));
            for b in bodies {
                for t2 in terms {
                    out.insert(format!("{}{}{}{}", h, t, b, t2));
                    if h == "#! mrasm" {
                        for b2 in ["NOP", "", "L9:", "; x"] {
                            out.insert(format!("{}{}{}{}{}", h, t, b, t2, b2));
                            out.insert(format!("{}{}{}{}{}{}", h, t, b2, t2, b, t));
                        }
                    }
                }
            }
        }
    }
    out.into_iter().collect()
}

/// Every ASCII character (0x00..=0x7F) and a few non-ASCII ones in every lexical position where
/// the language draws a character class: inside comments, inside and at the start of labels, right
/// after a mnemonic, between operands, inside numbers.
/// Long texts: many lines of every line kind around the 8-bit counts (254..=257), 300, and thousands;
/// very long single lines; long lists. The image stays small unless the kind itself emits bytes.
pub fn long_programs() -> Vec<String> {
    let mut out = vec![];
    let tail = "L:\n INC R0\n ST (0xFF), R0\n JR L\n";
    for n in [100usize, 253, 254, 255, 256, 257, 300, 1000, 2000, 5000, 20000] {
        for (kind, line) in [("comment", "; a comment line\n"), ("blank", "\n"), ("indented comment", "    ; x\n"), ("equ", ".EQU v 7\n")] {
            let _ = kind;
            out.push(format!("{}{}{}", HDR, line.repeat(n), tail));
            out.push(format!("{}{}{}", HDR, tail, line.repeat(n)));
        }
        if n <= 2000 {
            // instruction lines (the image outgrows the RAM beyond 240 one-byte instructions: C06's known classes)
            out.push(format!("{}{}", HDR, " NOP\n".repeat(n)));
            out.push(format!("{}{}", HDR, " BITT R0, R1 ; c\n".repeat(n)));
            out.push(format!("{}{}", HDR, " .BYTE 0\n".repeat(n)));
        }
    }
    // at most 40 labels, spread over many lines
    out.push(format!("{}{}", HDR, (0..40).map(|i| format!("L{}:\n{}", i, "; c\n".repeat(7))).collect::<String>()));
    // one very long line of each kind
    for n in [1000usize, 100_000] {
        out.push(format!("{}; {}\n", HDR, "x".repeat(n)));
        out.push(format!("{} NOP ; {}\n", HDR, "y ".repeat(n / 2)));
        out.push(format!("{} NOP{}; c\n", HDR, " ".repeat(n)));
        out.push(format!("{}{}NOP\n", HDR, "\t".repeat(n)));
        out.push(format!("{}{}:\n", HDR, "L".repeat(n)));
        out.push(format!("{} LD R0, {}5\n", HDR, "0".repeat(n)));
    }
    out.push(format!("{} .DB {}\n", HDR, (0..240).map(|i| i.to_string()).collect::<Vec<_>>().join(", ")));
    out.push(format!("{} .DB {}\n", HDR, (0..2000).map(|i| (i % 256).to_string()).collect::<Vec<_>>().join(",")));
    out.push(format!("{} .DW {}\n", HDR, (0..120).map(|i| (i * 531).to_string()).collect::<Vec<_>>().join(", ")));
    out
}

pub fn char_class_programs() -> Vec<String> {
    let mut out = vec![];
    let mut chars: Vec<char> = (0u8..=0x7F).map(|b| b as char).collect();
    chars.extend(['\u{80}', 'é', 'ß', 'Ω', '語', '\u{2028}', '\u{feff}', '😀']);
    for c in chars {
        out.push(format!("{} NOP ;x{}y", HDR, c));
        out.push(format!("{};{}", HDR, c));
        out.push(format!("{}L1: ; {} ;", HDR, c));
        out.push(format!("#! mrasm ;{}\n NOP", c));
        out.push(format!("{}a{}b:\n JR a{}b", HDR, c, c));
        out.push(format!("{}{}ab:\n", HDR, c));
        out.push(format!("{} NOP{}", HDR, c));
        out.push(format!("{} INC{}R0", HDR, c));
        out.push(format!("{} ADD R0,{}R1", HDR, c));
        out.push(format!("{} ADD R0{},R1", HDR, c));
        out.push(format!("{} LD R0, 1{}", HDR, c));
        out.push(format!("{} LD R0, 0x{}", HDR, c));
        out.push(format!("{} LD R0, 0b{}", HDR, c));
        out.push(format!("{} LD R0, (R1{})", HDR, c));
        out.push(format!("{} .DB 1{}2", HDR, c));
        out.push(format!("{}{} NOP", HDR, c));
        out.push(format!("{} R{}:", HDR, c));
    }
    out
}

/// (d) label rules: number of definitions around the limit, undefined references in every
/// referencing form, case folding, reserved prefixes.
pub fn label_programs() -> Vec<String> {
    let mut out = vec![];
    for n in [0usize, 1, 39, 40, 41, 45] {
        for equ_every in [0usize, 1, 2, 5] {
            let mut s = String::from(HDR);
            for i in 0..n {
                if equ_every != 0 && i % equ_every == 0 {
                    s.push_str(&format!(".EQU E{} {}\n", i, i));
                } else {
                    s.push_str(&format!("L{}:\n", i));
                }
            }
            out.push(s.clone());
            out.push(format!("{} JR L1\n", s));
            out.push(format!("{} JR NOWHERE\n", s));
            // duplicates count as definitions
            out.push(format!("{}L0:\nL0:\n", s));
        }
    }
    let refs = [
        "JMP X", "JCS X", "JCC X", "JZS X", "JZC X", "JNS X", "JNC X", "JR X", "CALL X", "LD R0, X", "LD R0, (X)", "ST (X), R0", "DEC X", "DEC (X)", "LDSP X", "LDSP (X)", "LDFR X", "LDFR (X)",
        "MOV R0, X", "MOV (X), R0", "MOV (X), X", "CMP (X), (X)", "BITT R0, X", "BITS (X), 1", "BITC (X), X",
    ];
    for r in refs {
        for (def, name) in [("X:", "X"), ("x:", "X"), ("X:", "x"), (".EQU X 3", "X"), (".EQU x 3", "X"), (".EQU X 3", "x"), (".EQU Xy 3", "xY"), ("Xy:", "xY"), ("xY:\n.EQU Xy 4", "XY"), ("", "X"), ("Y:", "X"), ("Xx:", "X"), ("X:", "Xx")] {
            let line = r.replace('X', name);
            out.push(format!("{}{}\n {}\n", HDR, def, line));
            out.push(format!("{} {}\n{}\n", HDR, line, def));
        }
    }
    for l in ["R:", "Rabbit:", "r2d2:", "PC:", "PCs:", "pcs:", "SP:", "Spin:", "sp1:", "_R:", "xR0:", "NOP:", "nop:", "MOV:", "EI:", "di:", "A:", "_:", "__:", "a1_:", "1a:", "a b:", "A-B:", "é:", "looooooooooooooooooooooooooooooooooooooooooooooooooooooong_label_with_60_characters:"] {
        out.push(format!("{}{}\n", HDR, l));
        let name = l.trim_end_matches(':');
        out.push(format!("{}{}\n JR {}\n", HDR, l, name));
        out.push(format!("{}.EQU {} 1\n", HDR, name));
    }
    out
}

/// (e) every string up to `len` symbols over an alphabet of bytes the grammar treats specially,
/// appended after a valid header; plus all 1-2 symbol strings *instead of* the header.
pub const SHORT_ALPHABET: [&str; 24] = ["#", "!", ";", ":", ",", "(", ")", "+", ".", "*", "_", " ", "\t", "\r", "\n", "0", "b", "x", "R", "1", "N", "é", "\u{2028}", "\0"];

/// The idx-th string of exactly `len` symbols over SHORT_ALPHABET, behind a valid header.
pub fn short_string_at(len: usize, mut idx: u64) -> String {
    let mut s = String::from(HDR);
    for _ in 0..len {
        s.push_str(SHORT_ALPHABET[(idx % 24) as usize]);
        idx /= 24;
    }
    s
}

pub fn short_strings(len: usize) -> Vec<String> {
    const A: [&str; 24] = SHORT_ALPHABET;
    let mut out = vec![];
    let mut cur: Vec<String> = vec![String::new()];
    for _ in 0..len {
        let mut next = Vec::with_capacity(cur.len() * A.len());
        for s in &cur {
            for a in A {
                next.push(format!("{}{}", s, a));
            }
        }
        for s in &next {
            out.push(format!("{}{}", HDR, s));
        }
        cur = next;
    }
    for a in A {
        out.push(a.to_string());
        out.push(format!("{}{}", a, HDR));
        for b in A {
            out.push(format!("{}{}", a, b));
            out.push(format!("#! mrasm{}{}", a, b));
        }
    }
    out
}

/// The .asm files shipped with the repository.
pub fn repo_programs() -> Vec<(String, String)> {
    let mut v = vec![];
    for dir in ["/repo/programs", "/repo/testing/programs"] {
        if let Ok(rd) = std::fs::read_dir(dir) {
            let mut names: Vec<_> = rd.filter_map(|e| e.ok()).map(|e| e.path()).filter(|p| p.extension().map(|e| e == "asm").unwrap_or(false)).collect();
            names.sort();
            for p in names {
                if let Ok(s) = std::fs::read_to_string(&p) {
                    v.push((p.display().to_string(), s));
                }
            }
        }
    }
    v
}

/// Split a source into tokens for the mutation family.
pub fn tokenize(s: &str) -> Vec<String> {
    let mut toks = vec![];
    let cs: Vec<char> = s.chars().collect();
    let mut i = 0;
    while i < cs.len() {
        let c = cs[i];
        if c.is_ascii_alphanumeric() || c == '_' || c == '.' || c == '*' {
            let mut j = i + 1;
            while j < cs.len() && (cs[j].is_ascii_alphanumeric() || cs[j] == '_') {
                j += 1;
            }
            toks.push(cs[i..j].iter().collect());
            i = j;
        } else if c == ' ' || c == '\t' {
            let mut j = i + 1;
            while j < cs.len() && (cs[j] == ' ' || cs[j] == '\t') {
                j += 1;
            }
            toks.push(cs[i..j].iter().collect());
            i = j;
        } else {
            toks.push(c.to_string());
            i += 1;
        }
    }
    toks
}

pub const MUT_VOCAB: [&str; 30] = [
    "R0", "R4", "PC", "pc", "(", ")", "+", ",", ":", ";", " ", "\t", "\n", "\r\n", "0", "255", "256", "0x1F", "0x100", "0b101", "LBL", "Rx", "NOP", "MOV", "LD", ".ORG", ".DB", "*STACKSIZE", "#! mrasm", "é",
];

/// (c) all single-token mutations of a source: delete, duplicate, replace by each vocabulary token.
pub fn mutations(src: &str, vocab: &[&str]) -> Vec<String> {
    let toks = tokenize(src);
    let mut out = vec![];
    for i in 0..toks.len() {
        let join = |mid: &[&str]| -> String {
            let mut s = String::new();
            for t in &toks[..i] {
                s.push_str(t);
            }
            for m in mid {
                s.push_str(m);
            }
            for t in &toks[i + 1..] {
                s.push_str(t);
            }
            s
        };
        out.push(join(&[]));
        out.push(join(&[&toks[i], &toks[i]]));
        for v in vocab {
            if *v != toks[i] {
                out.push(join(&[v]));
            }
        }
    }
    out
}
