//! C09 — well-formedness of the micro-sequencer control flow. The control graph over
//! (micro address, instruction register) is extracted through the *real* clock-edge code:
//! the hook forces a control state + inputs, `trigger_clock_edge()` computes the successor.
use crate::mach;
use emulator_2a_lib::machine::{AluInput, AluOutput, AluSelect, Machine, MicroprogramRam, RegisterNumber, State, Word};
use mc::{Ctx, Json};
use refmodel::isa::{defined_first, defined_second};
use std::collections::{BTreeMap, BTreeSet, HashMap, HashSet, VecDeque};

type Node = (u16, u8); // (micro address, IR)

#[derive(Clone, Copy, PartialEq, Eq, Hash, Debug)]
struct Edge {
    to: Node,
    /// The byte loaded into the IR on this transition (IR-loading words only).
    byte: Option<u8>,
    /// Machine state after the edge.
    halted: u8, // 0 running, 1 stopped, 2 error
}

fn word(addr: u16) -> Word {
    MicroprogramRam::CONTENT[addr as usize]
}
fn is_fetch(addr: u16) -> bool {
    word(addr).contains(Word::MAC3)
}
fn is_irload(addr: u16) -> bool {
    let w = word(addr);
    w.contains(Word::MAC2) && w.contains(Word::MAC0) && !w.contains(Word::MAC1)
}

fn alu_cond(c: bool, k: u8) -> AluOutput {
    // k: 0 = zero, 1 = negative, 2 = neither; realised through the real ALU (pass-B / SETC)
    let b = match k {
        0 => 0x00,
        1 => 0x80,
        _ => 0x01,
    };
    AluOutput::from_input(&AluInput::new(0, b, false), if c { &AluSelect::SETC } else { &AluSelect::B })
}

/// All successors of a control state under every input combination; returns (edges, calls).
fn successors(m: &mut Machine, n: Node, reduce_irload_inputs: bool) -> (HashSet<Edge>, u64) {
    let mut out = HashSet::new();
    let mut calls = 0u64;
    let irload = is_irload(n.0);
    let bytes: Vec<u8> = if irload { (0..=255u8).collect() } else { vec![0x55] };
    for &byte in &bytes {
        for flags in 0..16u8 {
            for c in [false, true] {
                for k in 0..3u8 {
                    for int in [false, true] {
                        if irload && reduce_irload_inputs && !(k == 2 && !c) {
                            continue;
                        }
                        m.raw_mut().trigger_key_continue();
                        if m.state() != State::Running {
                            m.cpu_reset();
                        }
                        m.raw_mut().registers_mut().set(RegisterNumber::R4, flags);
                        // keep SP/PC supervision out of the picture
                        m.raw_mut().registers_mut().set(RegisterNumber::R5, 0x40);
                        m.raw_mut().registers_mut().set(RegisterNumber::R3, 0x40);
                        m.raw_mut().verif_force_control(n.0 as usize, n.1, alu_cond(c, k), byte, int);
                        m.raw_mut().trigger_clock_edge();
                        calls += 1;
                        let halted = match m.state() {
                            State::Running => 0,
                            State::Stopped => 1,
                            State::ErrorStopped => 2,
                        };
                        out.insert(Edge {
                            to: (m.verif_micro_addr() as u16, m.verif_ir()),
                            byte: if irload { Some(byte) } else { None },
                            halted,
                        });
                    }
                }
            }
        }
    }
    (out, calls)
}

pub fn run() {
    let mut ctx = Ctx::from_args("model_checking");
    if let Some(f) = ctx.replay_file.clone() {
        // C09's cases are facts about the whole control graph: the replay rebuilds the graph (a second) and
        // reports every violation class again; the line of the file names the state / execution concerned
        println!("replaying {}: {}", f, std::fs::read_to_string(&f).unwrap_or_default().lines().next().unwrap_or(""));
    }
    let _quick = ctx.quick();
    // ---- exploration (level-synchronous, parallel over the frontier) ----
    let reset: Node = (0, 0x02);
    let mut graph: HashMap<Node, Vec<Edge>> = HashMap::new();
    let mut frontier = vec![reset];
    let mut seen: HashSet<Node> = HashSet::new();
    seen.insert(reset);
    let mut calls = 0u64;
    let mut panics = vec![];
    let mut levels = 0;
    while !frontier.is_empty() {
        levels += 1;
        let res = mc::par_map(&frontier, |n| {
            mc::catch(|| {
                let mut m = mach::free();
                successors(&mut m, *n, false)
            })
        });
        let mut next = vec![];
        for (n, r) in frontier.iter().zip(res) {
            match r {
                Ok((edges, c)) => {
                    calls += c;
                    let mut v: Vec<Edge> = edges.into_iter().collect();
                    v.sort_by_key(|e| (e.to, e.byte, e.halted));
                    for e in &v {
                        // an error-stopped machine ignores the clock for good; a stopped one can be continued
                        if e.halted != 2 && seen.insert(e.to) {
                            next.push(e.to);
                        }
                    }
                    graph.insert(*n, v);
                }
                Err(p) => panics.push((*n, p)),
            }
        }
        next.sort();
        frontier = next;
    }
    for (n, p) in &panics {
        ctx.violation(
            format!("panic/{}", p.file()),
            format!("panic at {} ({}) while stepping control state addr={:#05x} ir={:#04x}", p.site(), p.msg, n.0, n.1),
            format!("control addr={:#x} ir={:#x}", n.0, n.1),
        );
    }
    let states = graph.len();
    let transitions: usize = graph.values().map(|v| v.len()).sum();

    // ---- (3) the address always lies in the block selected by IR[7:4] ----
    for n in graph.keys() {
        if n.0 >> 5 != (n.1 >> 4) as u16 {
            ctx.violation(
                "block/address-outside-ir-block",
                format!("reachable control state addr={:#05x} ir={:#04x}: address block {:#x} != IR[7:4] {:#x}", n.0, n.1, n.0 >> 5, n.1 >> 4),
                format!("control addr={:#x} ir={:#x}", n.0, n.1),
            );
        }
    }
    // ---- defined-opcode subgraph: IR loads restricted to defined bytes ----
    let allowed = |from: Node, e: &Edge| -> bool {
        match e.byte {
            None => true,
            Some(b) => {
                if is_fetch(from.0) {
                    defined_first(b) && b != 0x00
                } else {
                    defined_second(b) && b != 0x00
                }
            }
        }
    };
    let mut dseen: HashSet<Node> = HashSet::new();
    let mut q = VecDeque::new();
    dseen.insert(reset);
    q.push_back(reset);
    while let Some(n) = q.pop_front() {
        for e in graph.get(&n).map(|v| v.as_slice()).unwrap_or(&[]) {
            if allowed(n, e) && e.halted != 2 && dseen.insert(e.to) {
                q.push_back(e.to);
            }
        }
    }
    // ---- (1) only programmed words ----
    let mut zero_all = BTreeSet::new();
    for n in graph.keys() {
        if word(n.0).bits() == 0 {
            zero_all.insert(*n);
        }
    }
    for n in &zero_all {
        let in_def = dseen.contains(n);
        ctx.violation(
            if in_def { "unprogrammed-word/defined-opcode".to_string() } else { "unprogrammed-word/any-byte".to_string() },
            format!("control state addr={:#05x} ir={:#04x} sits on an all-zero control word (reachable via defined opcodes: {})", n.0, n.1, in_def),
            format!("control addr={:#x} ir={:#x}", n.0, n.1),
        );
    }
    // ---- (2) cycles between fetches: SCCs of the non-fetch subgraph (defined opcodes) ----
    let nodes: Vec<Node> = {
        let mut v: Vec<Node> = dseen.iter().cloned().filter(|n| !is_fetch(n.0)).collect();
        v.sort();
        v
    };
    let idx: HashMap<Node, usize> = nodes.iter().enumerate().map(|(i, n)| (*n, i)).collect();
    let adj: Vec<Vec<usize>> = nodes
        .iter()
        .map(|n| {
            let mut a: Vec<usize> = graph[n].iter().filter(|e| allowed(*n, e) && e.halted != 2).filter_map(|e| idx.get(&e.to).cloned()).collect();
            a.sort();
            a.dedup();
            a
        })
        .collect();
    let sccs = tarjan(&adj);
    let mut cyc_addr_sets: BTreeMap<u8, BTreeSet<u16>> = BTreeMap::new();
    for comp in &sccs {
        let cyclic = comp.len() > 1 || adj[comp[0]].contains(&comp[0]);
        if !cyclic {
            continue;
        }
        let irs: BTreeSet<u8> = comp.iter().map(|&i| nodes[i].1).collect();
        let addrs: BTreeSet<u16> = comp.iter().map(|&i| nodes[i].0).collect();
        let ir = *irs.iter().next().unwrap();
        // the statement allows exactly the data-driven MUL (0xB0-0xBF) and DIV (0xC0-0xCF) loops;
        // the addresses inside those routines are reported, not prescribed
        let allowed_block = matches!(ir >> 4, 0xB | 0xC);
        if irs.len() != 1 || !allowed_block {
            ctx.violation(
                format!("cycle/unexpected/block-{:x}", ir >> 4),
                format!("micro-program cycle without a fetch for defined opcodes: IRs {:x?} addresses {:x?} (only the MUL loop 165-168 and the DIV loop 187-188 may cycle)", irs, addrs),
                format!("control addr={:#x} ir={:#x}", addrs.iter().next().unwrap(), ir),
            );
        }
        cyc_addr_sets.entry(ir >> 4).or_default().extend(addrs);
    }
    // longest fetch-free path once the loop-closing edges 168->165 and 188->187 are cut
    // loop-closing edges = edges inside a cyclic SCC that go to a lower address (the MUL/DIV back edges)
    let scc_of: HashMap<usize, usize> = sccs.iter().enumerate().flat_map(|(ci, c)| c.iter().map(move |&n| (n, ci))).collect();
    let cyclic_scc: HashSet<usize> = sccs.iter().enumerate().filter(|(_, c)| c.len() > 1 || adj[c[0]].contains(&c[0])).map(|(ci, _)| ci).collect();
    let node_of: HashMap<Node, usize> = idx.clone();
    let cut = |from: u16, to: u16, ir: u8| -> bool {
        match (node_of.get(&(from, ir)), node_of.get(&(to, ir))) {
            (Some(a), Some(b)) => scc_of[a] == scc_of[b] && cyclic_scc.contains(&scc_of[a]) && to <= from,
            _ => false,
        }
    };
    let mut memo: HashMap<usize, Option<u32>> = HashMap::new();
    fn longest(i: usize, adj: &Vec<Vec<usize>>, nodes: &Vec<Node>, cut: &dyn Fn(u16, u16, u8) -> bool, memo: &mut HashMap<usize, Option<u32>>, stack: &mut HashSet<usize>) -> Option<u32> {
        if let Some(v) = memo.get(&i) {
            return *v;
        }
        if !stack.insert(i) {
            return None; // cycle
        }
        let mut best = 1u32; // one step leaves this word (to a fetch word or another word)
        let mut res = Some(0);
        for &j in &adj[i] {
            if cut(nodes[i].0, nodes[j].0, nodes[i].1) {
                continue;
            }
            match longest(j, adj, nodes, cut, memo, stack) {
                Some(d) => best = best.max(d + 1),
                None => {
                    res = None;
                    break;
                }
            }
        }
        stack.remove(&i);
        let r = res.map(|_| best);
        memo.insert(i, r);
        r
    }
    let mut max_path = 0u32;
    let mut max_at = (0u16, 0u8);
    for i in 0..nodes.len() {
        let mut stack = HashSet::new();
        match longest(i, &adj, &nodes, &cut, &mut memo, &mut stack) {
            Some(d) => {
                if d > max_path {
                    max_path = d;
                    max_at = nodes[i];
                }
            }
            None => {
                ctx.violation(
                    "cycle/remaining-after-cut",
                    format!("a fetch-free cycle remains after cutting the MUL/DIV back edges, through addr={:#05x} ir={:#04x}", nodes[i].0, nodes[i].1),
                    format!("control addr={:#x} ir={:#x}", nodes[i].0, nodes[i].1),
                );
                break;
            }
        }
    }
    const MAX_STEPS_FROZEN: u32 = 19;
    if max_path > MAX_STEPS_FROZEN {
        ctx.violation(
            "bound/steps-to-fetch",
            format!("longest fetch-free path (loops cut) is {} steps from addr={:#05x} ir={:#04x}; bound {}", max_path, max_at.0, max_at.1, MAX_STEPS_FROZEN),
            format!("control addr={:#x} ir={:#x}", max_at.0, max_at.1),
        );
    }
    // ---- every defined opcode must *always* come back to a fetch: no dead ends ----
    for (i, n) in nodes.iter().enumerate() {
        let outs: Vec<&Edge> = graph[n].iter().filter(|e| allowed(*n, e)).collect();
        if outs.is_empty() {
            ctx.violation("dead-end", format!("control state addr={:#05x} ir={:#04x} has no successor", n.0, n.1), format!("control addr={:#x} ir={:#x}", n.0, n.1));
        }
        let _ = i;
    }
    // ---- (4) which bytes can never complete ----
    // first bytes: from any fetch state, load byte b, then search for a fetch word
    let fetch_states: Vec<Node> = {
        let mut v: Vec<Node> = graph.keys().cloned().filter(|n| is_fetch(n.0)).collect();
        v.sort();
        v
    };
    let reaches_fetch = |start: Node, graph: &HashMap<Node, Vec<Edge>>| -> bool {
        let mut seen = HashSet::new();
        let mut q = VecDeque::new();
        seen.insert(start);
        q.push_back(start);
        while let Some(n) = q.pop_front() {
            if is_fetch(n.0) {
                return true;
            }
            // a second opcode load inside the routine: only *defined* second bytes count as completing
            for e in graph.get(&n).map(|v| v.as_slice()).unwrap_or(&[]) {
                if e.halted == 2 {
                    continue;
                }
                if let Some(b) = e.byte {
                    if !(defined_second(b) && b != 0) {
                        continue;
                    }
                }
                if seen.insert(e.to) {
                    q.push_back(e.to);
                }
            }
        }
        false
    };
    let mut first_never: BTreeSet<u8> = BTreeSet::new();
    let mut first_some: BTreeSet<u8> = BTreeSet::new();
    for f in &fetch_states {
        for e in &graph[f] {
            if let Some(b) = e.byte {
                if e.halted == 2 {
                    continue;
                }
                if reaches_fetch(e.to, &graph) {
                    first_some.insert(b);
                } else {
                    first_never.insert(b);
                }
            }
        }
    }
    let expected_never: BTreeSet<u8> = (0u8..=255).filter(|b| !defined_first(*b)).collect();
    let never_only: BTreeSet<u8> = first_never.difference(&first_some).cloned().collect();
    if never_only != expected_never || !first_never.intersection(&first_some).next().is_none() {
        ctx.violation(
            "completion/first-byte-set",
            format!("first bytes that can never complete: expected {:x?}, observed {:x?} (bytes completing from some fetch state but not from others: {:x?})", expected_never, never_only, first_never.intersection(&first_some).collect::<Vec<_>>()),
            "control addr=0x6 ir=0x2",
        );
    }
    // second bytes after 0xF0..0xFF: states on word 0x1e6
    let mut second_never: BTreeSet<u8> = BTreeSet::new();
    let mut second_some: BTreeSet<u8> = BTreeSet::new();
    let mut n_second_states = 0;
    for (n, edges) in &graph {
        if n.0 == 0x1e6 {
            n_second_states += 1;
            for e in edges {
                if let Some(b) = e.byte {
                    if e.halted == 2 {
                        continue;
                    }
                    let mut seen = HashSet::new();
                    let mut q = VecDeque::new();
                    seen.insert(e.to);
                    q.push_back(e.to);
                    let mut ok = false;
                    while let Some(x) = q.pop_front() {
                        if is_fetch(x.0) {
                            ok = true;
                            break;
                        }
                        for e2 in graph.get(&x).map(|v| v.as_slice()).unwrap_or(&[]) {
                            if e2.halted != 2 && seen.insert(e2.to) {
                                q.push_back(e2.to);
                            }
                        }
                    }
                    if ok {
                        second_some.insert(b);
                    } else {
                        second_never.insert(b);
                    }
                }
            }
        }
    }
    let exp_second_never: BTreeSet<u8> = (1u8..=255).filter(|b| !defined_second(*b)).collect();
    if second_never != exp_second_never || second_never.intersection(&second_some).next().is_some() {
        ctx.violation(
            "completion/second-byte-set",
            format!("second bytes that can never complete: expected {:x?}, observed {:x?}", exp_second_never, second_never),
            "control addr=0x1e6 ir=0xf0",
        );
    }
    // 0x00 / 0x01 at any IR load halt the machine
    for (n, edges) in &graph {
        for e in edges {
            if let Some(b) = e.byte {
                let exp = match b {
                    0 => 2,
                    1 => 1,
                    _ => 0,
                };
                if e.halted != exp {
                    ctx.violation(
                        "halt-on-load",
                        format!("loading byte {:#04x} at addr={:#05x}: machine state code {} expected {}", b, n.0, e.halted, exp),
                        format!("control addr={:#x} ir={:#x}", n.0, n.1),
                    );
                }
            }
        }
    }
    // ---- (5) MUL / DIV termination, concrete, all 65 536 operand pairs ----
    let (mul_max, div_max, loop_bad) = muldiv_termination();
    for (what, line) in loop_bad {
        ctx.violation("loop/termination", what, line);
    }
    // ---- (6) conformance of the graph with unforced executions, incl. resets at every edge ----
    let (conf_steps, conf_resets, conf_runs, conf_bad) = conformance(&graph);
    let mut per_key: BTreeMap<String, u32> = BTreeMap::new();
    for (k, w, l) in conf_bad {
        let n = per_key.entry(k.clone()).or_default();
        *n += 1;
        if *n <= 3 {
            ctx.violation(k, w, l);
        }
    }
    ctx.set("conformance_runs", conf_runs);
    ctx.set("conformance_transitions_checked_against_graph", conf_steps);
    ctx.set("conformance_resets_mid_instruction", conf_resets);
    ctx.set("states", states);
    ctx.set("transitions", transitions);
    ctx.set("traces_validated_against_impl", calls + conf_runs);
    ctx.set("evaluations", calls);
    ctx.set("distinct_nontrivial", transitions);
    ctx.set("rule", "state = (micro address, IR); every state reachable from reset is stepped through the real trigger_clock_edge() under every input combination (16 flag states x 2 carry-outs x 3 ALU conditions x pending interrupt; x all 256 bytes at IR-loading words); transitions = distinct labelled successor edges, evaluations = real clock-edge calls; conformance: unforced executions of every first byte / every second byte (with and without a pending enabled interrupt, cpu and master reset at every edge) may only take edges of that graph");
    ctx.set("exhaustive", true);
    ctx.set("bounds", "fix-point; full input product at every state (both tiers)");
    ctx.set("bfs_levels", levels);
    ctx.set("defined_opcode_reachable_states", dseen.len());
    ctx.set("fetch_states", fetch_states.len());
    ctx.set("second_opcode_states", n_second_states);
    ctx.set("cyclic_blocks", Json::Arr(cyc_addr_sets.iter().map(|(b, a)| Json::Str(format!("block {:x}: {:x?}", b, a))).collect()));
    ctx.set("longest_fetch_free_path_loops_cut", max_path);
    ctx.set("first_bytes_never_completing", Json::Arr(never_only.iter().map(|b| Json::Str(format!("{:#04x}", b))).collect()));
    ctx.set("second_bytes_never_completing", second_never.len());
    ctx.set("mul_max_edges_all_pairs", mul_max);
    ctx.set("div_max_edges_all_pairs", div_max);
    ctx.set("distinct_outcomes", fetch_states.len() + cyc_addr_sets.len());
    let mut sample_nodes: Vec<&Node> = graph.keys().collect();
    sample_nodes.sort();
    for n in sample_nodes.iter().step_by((states / 8).max(1)).take(8) {
        ctx.sample(format!("state addr={:#05x} ir={:#04x} -> {:?}", n.0, n.1, graph[n].iter().take(4).map(|e| format!("{:#05x}/{:#04x}", e.to.0, e.to.1)).collect::<Vec<_>>()));
    }
    ctx.set("determinism_selftest", {
        let mut m = mach::free();
        let a = successors(&mut m, (0x165, 0xB4), false).0;
        let b = successors(&mut m, (0x165, 0xB4), false).0;
        a == b
    });
    ctx.assume("the hook verif_force_control sets exactly the sequencer-visible latches; the successor is computed by the shipped trigger_clock_edge()");
    ctx.assume("defined first/second byte sets are REF-ISA's (frozen from the control store)");
    ctx.finish();
}

/// (6) Conformance of the extracted graph with *unforced* executions: every first byte (and every
/// second byte after 0xF0-0xFF) is executed on a poked reset machine, with and without a pending
/// enabled key interrupt; every observed transition (addr, IR) -> (addr', IR') must be an edge of the
/// graph. At every edge of those runs the machine is also cloned and reset (cpu / master): the control
/// state must be the power-on one and the following transitions must again be edges of the graph.
/// A latch outside (addr, IR, inputs) that steers the sequencer shows up here.
fn conformance(graph: &HashMap<Node, Vec<Edge>>) -> (u64, u64, u64, Vec<(String, String, String)>) {
    use crate::isa_sweep::{self as sw, Case};
    let power_on: Node = {
        let f = mach::free();
        (f.verif_micro_addr() as u16, f.verif_ir())
    };
    let mut cases: Vec<(u8, u8, bool, u8)> = vec![];
    for b in 0..=255u8 {
        let seconds: Vec<u8> = if b >= 0xF0 { (0..=255).collect() } else { vec![0x12] };
        for s in seconds {
            for int in [false, true] {
                for regs in 0..2u8 {
                    if b >= 0xF0 && regs == 1 && s % 8 != 0 {
                        continue;
                    }
                    cases.push((b, s, int, regs));
                }
            }
        }
    }
    let res = mc::par_ranges(cases.len(), 64, |rg| {
        let mut checked = 0u64;
        let mut resets = 0u64;
        let mut bad: Vec<(String, String, String)> = vec![];
        let hal = |m: &Machine| -> u8 {
            match m.state() {
                State::Running => 0,
                State::Stopped => 1,
                State::ErrorStopped => 2,
            }
        };
        // one observed step; false = not an edge of the graph
        let step_ok = |m: &mut Machine, checked: &mut u64| -> Result<bool, String> {
            let from: Node = (m.verif_micro_addr() as u16, m.verif_ir());
            let waiting = m.verif_pending().3;
            m.raw_mut().trigger_clock_edge();
            let to: Node = (m.verif_micro_addr() as u16, m.verif_ir());
            *checked += 1;
            // a memory wait state: the edge only consumes the wait latch, the word stays current
            if waiting {
                return if to == from { Ok(true) } else { Err(format!("a wait edge changed the control state addr={:#05x} ir={:#04x} -> addr={:#05x} ir={:#04x}", from.0, from.1, to.0, to.1)) };
            }
            // error stops raised by the SP/PC supervision are C05's subject and kept out of the graph
            if m.state() == State::ErrorStopped {
                return Ok(true);
            }
            match graph.get(&from) {
                None => Err(format!("control state addr={:#05x} ir={:#04x} of a real execution is not a state of the extracted graph", from.0, from.1)),
                Some(es) => {
                    if es.iter().any(|e| e.to == to && e.halted == hal(m)) {
                        Ok(true)
                    } else {
                        Err(format!("real execution steps addr={:#05x} ir={:#04x} -> addr={:#05x} ir={:#04x} (state code {}), which is not an edge of the graph extracted under every input combination: the sequencer depends on something besides (address, IR, flags, ALU condition, bus byte, pending interrupt)", from.0, from.1, to.0, to.1, hal(m)))
                    }
                }
            }
        };
        for i in rg {
            let (b, s, int, regs) = cases[i];
            let line = format!("conf first={:#04x} second={:#04x} int={} regs={}", b, s, int, regs);
            mc::watch::progress(|| line.clone());
            let r = mc::catch(|| {
                let mut out: Vec<(String, String)> = vec![];
                let mut ram = [0u8; 240];
                for (k, x) in ram.iter_mut().enumerate() {
                    *x = (k as u8).wrapping_mul(11) ^ 0x21;
                }
                sw::place(&mut ram, 0x10, &[b, s, 0x30, 0x02, 0x02, 0x02, 0x02]);
                let cpu = if regs == 0 {
                    refmodel::isa::Cpu { r: [0x25, 0x03, 0x90], pc: 0x10, fr: if int { 0x08 } else { 0 }, sp: 0xC0 }
                } else {
                    refmodel::isa::Cpu { r: [0x00, 0xFF, 0x80], pc: 0x10, fr: if int { 0x0F } else { 0x07 }, sp: 0xC0 }
                };
                let case = Case { cpu, scratch: (0, 0), ram, inputs: [0; 4], di1: 0 };
                let mut m = case.machine();
                if int {
                    m.raw_mut().bus_mut().write(0xF9, 0x01);
                    m.trigger_key_interrupt();
                }
                let mut c = 0u64;
                let mut rs = 0u64;
                for t in 0..48 {
                    if m.state() != State::Running {
                        break;
                    }
                    if t < 26 {
                        for master in [false, true] {
                            let mut x = m.clone();
                            if master {
                                x.master_reset()
                            } else {
                                x.cpu_reset()
                            }
                            rs += 1;
                            let st: Node = (x.verif_micro_addr() as u16, x.verif_ir());
                            if st != power_on {
                                out.push(("reset/control-state-not-power-on".into(), format!("after a {} reset at edge {} the control state is addr={:#05x} ir={:#04x}, power-on is addr={:#05x} ir={:#04x}", if master { "master" } else { "cpu" }, t, st.0, st.1, power_on.0, power_on.1)));
                                continue;
                            }
                            for _ in 0..6 {
                                if x.state() != State::Running {
                                    break;
                                }
                                if let Err(w) = step_ok(&mut x, &mut c) {
                                    out.push(("conformance/after-reset".into(), format!("after a {} reset at edge {}: {}", if master { "master" } else { "cpu" }, t, w)));
                                    break;
                                }
                            }
                        }
                    }
                    if let Err(w) = step_ok(&mut m, &mut c) {
                        out.push(("conformance/transition-not-in-graph".into(), format!("edge {}: {}", t, w)));
                        break;
                    }
                }
                (out, c, rs)
            });
            match r {
                Ok((out, c, rs)) => {
                    checked += c;
                    resets += rs;
                    for (k, w) in out {
                        if bad.len() < 6 {
                            bad.push((k, format!("[{}] {}", line, w), line.clone()));
                        }
                    }
                }
                Err(p) => {
                    if bad.len() < 6 {
                        bad.push((format!("panic/{}", p.file()), format!("[{}] panic at {}: {}", line, p.site(), p.msg), line.clone()));
                    }
                }
            }
        }
        (checked, resets, bad)
    });
    let mut out = (0u64, 0u64, cases.len() as u64, vec![]);
    for (c, r, b) in res {
        out.0 += c;
        out.1 += r;
        out.3.extend(b);
    }
    out
}

fn muldiv_termination() -> (u32, u32, Vec<(String, String)>) {
    use crate::isa_sweep::{self as sw, Case};
    let res = mc::par_ranges(65536 * 2, 256, |r| {
        let mut mx = [0u32; 2];
        let mut bad = vec![];
        for i in r {
            let op = if i < 65536 { 0xB4u8 } else { 0xC4 };
            let (a, b) = (((i % 65536) >> 8) as u8, (i & 0xFF) as u8);
            let mut ram = [0u8; 240];
            sw::place(&mut ram, 0, &[op, 0x02]);
            let case = Case {
                cpu: refmodel::isa::Cpu { r: [a, b, 0], pc: 0, fr: 0, sp: 0x7F },
                scratch: (0, 0),
                ram,
                inputs: [0; 4],
                di1: 0,
            };
            let mut m = case.machine();
            match mach::exec_one(&mut m, 4096) {
                mach::RunEnd::Boundary(e) => {
                    let k = (i >= 65536) as usize;
                    mx[k] = mx[k].max(e);
                }
                other => bad.push((format!("{} {:#04x},{:#04x} does not return to a fetch: {:?}", if i < 65536 { "MUL" } else { "DIV" }, a, b, other), case.line())),
            }
        }
        (mx, bad)
    });
    let mut mx = [0u32; 2];
    let mut bad = vec![];
    for (m, b) in res {
        mx[0] = mx[0].max(m[0]);
        mx[1] = mx[1].max(m[1]);
        bad.extend(b);
    }
    bad.truncate(8);
    (mx[0], mx[1], bad)
}

fn tarjan(adj: &Vec<Vec<usize>>) -> Vec<Vec<usize>> {
    // iterative Tarjan SCC
    let n = adj.len();
    let mut index = vec![usize::MAX; n];
    let mut low = vec![0usize; n];
    let mut on = vec![false; n];
    let mut stack = vec![];
    let mut out = vec![];
    let mut counter = 0;
    for s in 0..n {
        if index[s] != usize::MAX {
            continue;
        }
        let mut call: Vec<(usize, usize)> = vec![(s, 0)];
        while let Some(&mut (v, ref mut ci)) = call.last_mut() {
            if *ci == 0 {
                index[v] = counter;
                low[v] = counter;
                counter += 1;
                stack.push(v);
                on[v] = true;
            }
            if *ci < adj[v].len() {
                let w = adj[v][*ci];
                *ci += 1;
                if index[w] == usize::MAX {
                    call.push((w, 0));
                } else if on[w] {
                    low[v] = low[v].min(index[w]);
                }
            } else {
                if low[v] == index[v] {
                    let mut comp = vec![];
                    loop {
                        let w = stack.pop().unwrap();
                        on[w] = false;
                        comp.push(w);
                        if w == v {
                            break;
                        }
                    }
                    out.push(comp);
                }
                call.pop();
                if let Some(&mut (p, _)) = call.last_mut() {
                    low[p] = low[p].min(low[v]);
                }
            }
        }
    }
    out
}
