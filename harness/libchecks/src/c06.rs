//! C06 — every program the parser accepts compiles and loads without a panic.
//! Panic monitor over enumerated accepted programs; process-level confirmation with the real binary.
use crate::c02::panic_class;
use crate::c03::{case_line, unesc};
use crate::corpus::{self, HDR};
use emulator_2a_lib::compiler::Translator;
use emulator_2a_lib::machine::{Machine, MachineConfig};
use emulator_2a_lib::parser::AsmParser;
use mc::{Ctx, Json};
use refmodel::asm::{assemble, Layout};
use refmodel::mrasm;
use std::collections::BTreeMap;

#[derive(Debug)]
pub enum Verdict {
    NotAccepted,
    Ok { size: usize },
    Bad(String, String),
}

/// Layout class of an accepted program according to REF-ASM (used only to key findings).
fn layout_class(src: &str) -> &'static str {
    match mrasm::parse(src).ok().map(|a| assemble(&a)) {
        Some(Ok(b)) => {
            let n = b.bytes().len();
            if n > 240 {
                "image-241-to-255-bytes"
            } else {
                "fits"
            }
        }
        Some(Err(Layout::BackwardOrg { .. })) => "backward-org",
        Some(Err(Layout::TooLarge { .. })) => "image-over-255-bytes",
        _ => "unknown",
    }
}

pub fn pipeline(src: &str) -> Verdict {
    let parsed = match mc::catch(|| AsmParser::parse(src)) {
        Ok(Ok(a)) => a,
        Ok(Err(_)) => return Verdict::NotAccepted,
        Err(p) => return Verdict::Bad(format!("parse/panic/{}", panic_class(&p.msg)), format!("AsmParser::parse panicked at {}: {}", p.site(), p.msg)),
    };
    let bc = match mc::catch(|| Translator::compile(&parsed)) {
        Ok(b) => b,
        Err(p) => {
            let lc = layout_class(src);
            let cls = panic_class(&p.msg);
            // a panic is only "explained" by the layout it is known for
            let key = match (cls, lc) {
                ("backward-org", "backward-org") => "compile/panic/backward-org".to_string(),
                ("arithmetic-overflow", "image-over-255-bytes") => "compile/panic/address-counter-overflow".to_string(),
                _ => format!("compile/panic/{}/{}", cls, lc),
            };
            return Verdict::Bad(key, format!("accepted by the parser, Translator::compile panicked at {}: {}", p.site(), p.msg.lines().next().unwrap_or("")));
        }
    };
    let size = bc.bytes().count();
    match mc::catch(|| {
        let mut m = Machine::new(MachineConfig::default());
        m.load(bc.clone());
        for _ in 0..12 {
            m.trigger_key_clock();
        }
        let m2 = Machine::new_with_program(MachineConfig::default(), bc.clone());
        let _ = format!("{}", bc);
        (m.state(), m2.state())
    }) {
        Ok(_) => Verdict::Ok { size },
        Err(p) => {
            let lc = layout_class(src);
            let cls = panic_class(&p.msg);
            let key = match (cls, lc) {
                ("index-out-of-range", "image-241-to-255-bytes") => "load/panic/image-larger-than-ram".to_string(),
                ("index-out-of-range", "image-over-255-bytes") => "load/panic/image-larger-than-ram".to_string(),
                _ => format!("load/panic/{}/{}", cls, lc),
            };
            Verdict::Bad(key, format!("accepted and compiled ({} bytes), Machine::load panicked at {}: {}", size, p.site(), p.msg.lines().next().unwrap_or("")))
        }
    }
}

fn db_fill(n: usize) -> String {
    let mut s = String::new();
    let mut left = n;
    while left > 0 {
        let k = left.min(16);
        s.push_str(" .DB ");
        s.push_str(&(0..k).map(|i| ((i * 7 + left) % 256).to_string()).collect::<Vec<_>>().join(", "));
        s.push('\n');
        left -= k;
    }
    s
}

/// `.ORG a` after every current position p.
fn org_programs(full: bool) -> Vec<String> {
    let mut v = vec![];
    let ps: Vec<usize> = if full { (0..=255).collect() } else { vec![0, 1, 2, 5, 0x7F, 0x80, 0xEF, 0xF0, 0xF1, 0xFE, 0xFF] };
    for &p in &ps {
        let fill = db_fill(p);
        for a in 0..=255usize {
            v.push(format!("{}{} .ORG {}\nL:\n NOP\n JR L\n", HDR, fill, a));
        }
    }
    v
}

/// Images of every size 0..=300, each construction separately.
fn size_programs() -> Vec<String> {
    let mut v = vec![];
    // every size that fits the RAM x every stack-size and program-size setting
    for n in 0..=240usize {
        for st in ["", "*STACKSIZE 0\n", "*STACKSIZE 16\n", "*STACKSIZE 32\n", "*STACKSIZE 48\n", "*STACKSIZE 64\n", "*STACKSIZE NOSET\n"] {
            for pr in ["", "*PROGRAMSIZE AUTO\n", "*PROGRAMSIZE NOSET\n", "*PROGRAMSIZE 0\n", "*PROGRAMSIZE 255\n"] {
                if n % 16 > 1 && n % 16 < 15 && !(st.is_empty() && pr.is_empty()) && n < 190 {
                    continue; // the full product for sizes near multiples of 16 and everything >= 190
                }
                v.push(format!("{}{}{}{}", HDR, st, pr, db_fill(n)));
            }
        }
    }
    for n in 0..=300usize {
        v.push(format!("{}{}", HDR, db_fill(n)));
        v.push(format!("{}{}END:\n JR END\n", HDR, db_fill(n)));
        // .DW pairs
        let mut s = String::from(HDR);
        for i in 0..n / 2 {
            s.push_str(&format!(" .DW {}\n", i * 257 % 65536));
        }
        v.push(s);
        // .BYTE blocks
        let mut s = String::from(HDR);
        let mut left = n;
        while left > 0 {
            let k = left.min(255);
            s.push_str(&format!(" .BYTE {}\n", k));
            left -= k;
        }
        s.push_str("L:\n LD R0, L\n");
        v.push(s);
        if n <= 255 {
            v.push(format!("{} .ORG {}\nL:\n NOP\n CALL L\n", HDR, n));
            v.push(format!("{} .BYTE {}\n .ORG {}\n", HDR, n / 2, n));
        }
        // 4-byte instructions
        let mut s = String::from(HDR);
        s.push_str("L:\n");
        for _ in 0..n / 4 {
            s.push_str(" MOV (L), (L)\n");
        }
        v.push(s);
    }
    v
}

/// Every kind of size-contributing line (1 and 3 times) as a prefix, then `.ORG` just behind the
/// prefix or near the end of the RAM, then a tail that brings the image to 236..=242 bytes: the
/// translator's address counter and the emitted image must agree for every kind at the RAM limit.
fn prefix_org_limit_programs() -> Vec<String> {
    let kinds: [(&str, usize); 16] = [
        (" .DB 7\n", 1),
        (" .DB 1, 2, 3\n", 3),
        (" .DB 0x1234\n", 1),
        (" .DW 0x0102\n", 2),
        (" .DW 1, 2, 3\n", 6),
        (" .BYTE 3\n", 3),
        (" NOP\n", 1),
        (" LD R0, 5\n", 3),
        (" LD R1, X\n", 3),
        (" MOV (X), (X)\n", 4),
        (" ST (0xF0), R0\n", 3),
        (" JR X\n", 2),
        (" CALL X\n", 2),
        (" DEC (X)\n", 2),
        (" .EQU Y 5\n", 0),
        ("Z:\n", 0),
    ];
    let mut v = vec![];
    for (k, sz) in kinds {
        for reps in [1usize, 3] {
            let pre = sz * reps;
            let mut orgs: Vec<usize> = (pre..=pre + 2).collect();
            orgs.extend(230..=241);
            for org in orgs {
                for total in org.max(236)..=242 {
                    // one Z label only
                    let body: String = if k == "Z:\n" { k.to_string() } else { k.repeat(reps) };
                    v.push(format!("{}X:\n{} .ORG {}\n{}", HDR, body, org, db_fill(total - org)));
                }
            }
        }
    }
    v
}

#[derive(Default)]
struct Out {
    n: u64,
    accepted: u64,
    ok: u64,
    sizes: BTreeMap<usize, u64>,
    bad: BTreeMap<String, (u64, Vec<(String, String)>)>,
}

fn run_family(name: &str, inputs: &[String], fam: &mut BTreeMap<String, Json>, all: &mut Out) {
    let outs = mc::par_ranges(inputs.len(), 256, |r| {
        let mut o = Out::default();
        for i in r {
            o.n += 1;
            mc::watch::progress(|| case_line(&inputs[i]));
            match pipeline(&inputs[i]) {
                Verdict::NotAccepted => {}
                Verdict::Ok { size } => {
                    o.accepted += 1;
                    o.ok += 1;
                    *o.sizes.entry(size / 16 * 16).or_default() += 1;
                }
                Verdict::Bad(k, w) => {
                    o.accepted += 1;
                    let e = o.bad.entry(k).or_default();
                    e.0 += 1;
                    if e.1.len() < 4 {
                        e.1.push((case_line(&inputs[i]), w));
                    }
                }
            }
        }
        o
    });
    let mut f = Out::default();
    for o in outs {
        f.n += o.n;
        f.accepted += o.accepted;
        f.ok += o.ok;
        for (k, v) in o.sizes {
            *all.sizes.entry(k).or_default() += v;
        }
        for (k, (c, cases)) in o.bad {
            let e = all.bad.entry(k).or_default();
            e.0 += c;
            for cs in cases {
                if e.1.len() < 4 {
                    e.1.push((cs.0, format!("[{}] {}", name, cs.1)));
                }
            }
        }
    }
    let mut j = Json::obj();
    j.set("inputs", f.n).set("accepted_by_parser", f.accepted).set("compiled_and_loaded", f.ok);
    fam.insert(name.to_string(), j);
    all.n += f.n;
    all.accepted += f.accepted;
    all.ok += f.ok;
}

/// Process level: `verify f` exits 0  =>  `run f 10` must not die by panic (exit code 101 / signal).
fn process_level(progs: &[String], ctx: &mut Ctx) -> (u64, u64) {
    let bin = match std::env::var("VERIF_BIN") {
        Ok(b) if std::path::Path::new(&b).exists() => b,
        _ => {
            ctx.machinery_error("VERIF_BIN (the 2a-emulator binary built from /repo) is not available");
            return (0, 0);
        }
    };
    let dir = std::env::temp_dir().join(format!("verif-c06-{}", std::process::id()));
    let _ = std::fs::create_dir_all(&dir);
    let results = mc::par_ranges(progs.len(), 32, |r| {
        let mut out = vec![];
        for i in r {
            let f = dir.join(format!("p{}.asm", i));
            std::fs::write(&f, &progs[i]).expect("write temp program");
            let v = mc::output_with_timeout(std::process::Command::new(&bin).arg("verify").arg(&f), 20);
            let accepted = matches!(&v, Ok(Some(o)) if o.status.code() == Some(0));
            let mut died = None;
            if accepted {
                let r = mc::output_with_timeout(std::process::Command::new(&bin).arg("run").arg(&f).arg("10"), 20);
                match r {
                    Ok(None) => died = Some((None, "the command did not finish within 20 s and was killed".to_string(), String::new())),
                    Ok(Some(o)) => {
                        let code = o.status.code();
                        if code == Some(101) || code.is_none() {
                            let err = String::from_utf8_lossy(&o.stderr);
                            let msg = err.lines().find(|l| l.contains("panicked")).map(|s| s.to_string()).unwrap_or_else(|| err.lines().last().unwrap_or("").to_string());
                            let full = err.to_string();
                            died = Some((code, msg, full));
                        }
                    }
                    Err(e) => died = Some((None, format!("spawn failed: {}", e), String::new())),
                }
            }
            let _ = std::fs::remove_file(&f);
            out.push((i, accepted, died));
        }
        out
    });
    let _ = std::fs::remove_dir_all(&dir);
    let mut spawned = 0;
    let mut accepted_n = 0;
    for (i, accepted, died) in results.into_iter().flatten() {
        spawned += 1;
        if accepted {
            accepted_n += 1;
            spawned += 1;
        }
        if let Some((code, msg, full)) = died {
            let lc = layout_class(&progs[i]);
            let cls = panic_class(&full);
            let key = match (cls, lc) {
                ("backward-org", "backward-org") => "compile/panic/backward-org".to_string(),
                ("arithmetic-overflow", "image-over-255-bytes") => "compile/panic/address-counter-overflow".to_string(),
                ("index-out-of-range", "image-241-to-255-bytes") | ("index-out-of-range", "image-over-255-bytes") => "load/panic/image-larger-than-ram".to_string(),
                _ => format!("process/panic/{}/{}", cls, lc),
            };
            ctx.violation(key, format!("`2a-emulator verify` exits 0 but `2a-emulator run <f> 10` dies with {:?}: {}", code, msg), case_line(&progs[i]));
        }
    }
    (spawned, accepted_n)
}

pub fn run() {
    let mut ctx = Ctx::from_args("exploration");
    if let Some(f) = ctx.replay_file.clone() {
        let text = std::fs::read_to_string(&f).expect("replay file");
        let l = text.lines().next().unwrap_or("");
        let src = unesc(l.strip_prefix("src ").unwrap_or(l));
        println!("program ({} chars), layout class {}", src.len(), layout_class(&src));
        let v = pipeline(&src);
        println!("{:?}", v);
        if let Verdict::Bad(k, w) = v {
            ctx.violation(k, w, text.clone());
        }
        ctx.finish();
    }
    let quick = ctx.quick();
    let mut fam = BTreeMap::new();
    let mut all = Out::default();
    // both tiers run the generated families in full (seconds); the tiers differ in the mutation
    // vocabulary, the jump family and the size of the process-level cross-section
    let sentences: Vec<String> = corpus::sentence_lines(true).iter().map(|l| corpus::wrap(l)).collect();
    run_family("sentences", &sentences, &mut fam, &mut all);
    run_family("line-shapes", &corpus::shape_programs(), &mut fam, &mut all);
    run_family("label-rules", &corpus::label_programs(), &mut fam, &mut all);
    run_family("character-classes", &corpus::char_class_programs(), &mut fam, &mut all);
    run_family("long-texts", &corpus::long_programs(), &mut fam, &mut all);
    let orgs = org_programs(true);
    run_family("org-after-every-position", &orgs, &mut fam, &mut all);
    let sizes = size_programs();
    run_family("images-of-every-size", &sizes, &mut fam, &mut all);
    run_family("every-line-kind-then-org-at-the-ram-limit", &prefix_org_limit_programs(), &mut fam, &mut all);
    // the layout families of C02: every relative jump distance, every shape after directive prefixes, limits
    let jumps = crate::c02::jump_programs(!quick);
    run_family("relative-jumps-every-distance", &jumps, &mut fam, &mut all);
    let shapes = crate::c02::shapes(true);
    let lay = crate::c02::layout_programs(2, &shapes);
    run_family("shapes-after-directive-prefixes", &lay, &mut fam, &mut all);
    run_family("limit-directives", &crate::c02::limit_programs(), &mut fam, &mut all);
    let repo: Vec<String> = corpus::repo_programs().into_iter().map(|p| p.1).collect();
    run_family("repository-programs", &repo, &mut fam, &mut all);
    // label case variants through every referencing form come with label_programs(); mutations of repo programs:
    let mut muts = vec![];
    for (i, src) in repo.iter().enumerate() {
        if src.len() < 700 && (!quick || i % 4 == 0) {
            muts.extend(corpus::mutations(src, &corpus::MUT_VOCAB[..if quick { 8 } else { 30 }]));
        }
    }
    run_family("mutated-repository-programs", &muts, &mut fam, &mut all);
    for (k, (n, cases)) in &all.bad {
        for (l, w) in cases.iter().take(3) {
            ctx.violation(k.clone(), format!("{} ({} programs in class)", w, n), l.clone());
        }
    }
    // process level cross-section: one program per 50 of the accepted sentence family + layout corner cases
    let mut cross: Vec<String> = sentences.iter().filter(|s| mrasm::parse(s).is_ok()).step_by(if quick { 120 } else { 25 }).cloned().collect();
    for (p, a) in [(0, 0), (5, 5), (5, 4), (200, 100), (239, 239), (0, 239), (0, 240), (0, 241), (0, 255), (250, 255)] {
        cross.push(format!("{}{} .ORG {}\n NOP\n", HDR, db_fill(p), a));
    }
    for n in [0usize, 1, 239, 240, 241, 255, 256, 300] {
        cross.push(format!("{}{}", HDR, db_fill(n)));
    }
    cross.push(format!("{}Loop:\n JR loop\n", HDR));
    cross.push(format!("{} DEC (R0)\n DEC ((R1+))\n DEC 5\n", HDR));
    let (spawned, proc_accepted) = process_level(&cross, &mut ctx);
    // ---- the interactive front-end's way of loading (start-up program, `load` command, listing pane) ----
    let mut listed = 0u64;
    match std::env::var("VERIF_TUI") {
        Ok(tui_bin) if std::path::Path::new(&tui_bin).exists() => {
            let mut texts: Vec<String> = vec![];
            texts.extend(corpus::char_class_programs());
            texts.extend(sentences.iter().step_by(if quick { 60 } else { 7 }).cloned());
            texts.extend(corpus::label_programs().into_iter().step_by(3));
            texts.extend(repo.iter().cloned());
            texts.extend(corpus::long_programs().into_iter().filter(|t| t.len() < 60_000));
            // comments and labels of every length with multi-byte characters at every byte offset
            for n in 0..=90usize {
                for fill in ["ä", "語", "😀", "x"] {
                    texts.push(format!("{} LD R0, (0xFC) ; {}{}\n", HDR, "a".repeat(n % 4), fill.repeat(n)));
                    texts.push(format!("{}L{}: ; {}{}\n NOP ;{}\n", HDR, n, "b".repeat(n % 3), fill.repeat(n), fill.repeat(90 - n)));
                    texts.push(format!("{}; {}{}\n", HDR, "c".repeat(n % 5), fill.repeat(n)));
                }
            }
            texts.retain(|t| layout_class(t) == "fits");
            texts.sort();
            texts.dedup();
            let dir = std::env::temp_dir().join(format!("verif-c06-tui-{}", std::process::id()));
            let _ = std::fs::create_dir_all(&dir);
            for (i, t) in texts.iter().enumerate() {
                let _ = std::fs::write(dir.join(format!("p{:05}.asm", i)), t);
            }
            listed = texts.len() as u64;
            match mc::output_with_timeout(std::process::Command::new(&tui_bin).arg("C06-LISTING").arg(&dir), 600) {
                Ok(Some(o)) => {
                    let out = String::from_utf8_lossy(&o.stdout).to_string();
                    let mut seen = 0u64;
                    for l in out.lines().filter(|l| l.starts_with("LISTING ")) {
                        seen += 1;
                        let mut it = l.splitn(4, ' ');
                        let (_, file, verdict, rest) = (it.next(), it.next().unwrap_or(""), it.next().unwrap_or(""), it.next().unwrap_or(""));
                        let idx: usize = file.trim_start_matches('p').trim_end_matches(".asm").parse().unwrap_or(0);
                        let src = texts.get(idx).cloned().unwrap_or_default();
                        match verdict {
                            "ok" => {}
                            "refused" => ctx.violation("tui/refuses-an-accepted-program", "the interactive front-end refuses to load a program the parser accepts", case_line(&src)),
                            "panic" => {
                                let site = rest.split(':').next().unwrap_or("").to_string();
                                ctx.violation(format!("tui/panic/{}", site), format!("loading an accepted program the way the interactive front-end does (start-up program, `load`, listing pane) panics at {}", rest), case_line(&src));
                            }
                            _ => ctx.violation("tui/load-differs", format!("loading through the interface: {}", rest), case_line(&src)),
                        }
                    }
                    if seen != listed {
                        ctx.machinery_error(format!("the TUI listing stage answered for {} of {} files (exit {:?}): {}", seen, listed, o.status.code(), String::from_utf8_lossy(&o.stderr).lines().last().unwrap_or("")));
                    }
                }
                Ok(None) => ctx.machinery_error("the TUI listing stage did not finish within 600 s"),
                Err(e) => ctx.machinery_error(format!("cannot run the TUI listing stage: {}", e)),
            }
            let _ = std::fs::remove_dir_all(&dir);
        }
        _ => ctx.machinery_error("VERIF_TUI (the TUI harness binary) is not available"),
    }
    ctx.set("programs_loaded_through_the_interface", listed);
    ctx.set("evaluations", all.n);
    ctx.set("distinct_nontrivial", all.accepted);
    ctx.set("rule", "every enumerated source text goes parse -> Translator::compile -> Machine::load (+ new_with_program, 12 steps, byte-code listing) under catch_unwind; distinct_nontrivial = texts accepted by the parser (the later stages ran); a cross-section additionally runs through the real binary: `verify` exit 0 implies `run` does not die by panic; about 2 300 accepted programs are loaded by the interactive front-end (TUI harness as a child process: start-up program, `load` command, listing pane drawn)");
    ctx.set("exhaustive", true);
    ctx.set("bounds", format!(".ORG a after every position p: {} x 256 pairs; images of every size 0..=300 by 7 constructions x limit directives; every line kind followed by .ORG at the RAM limit; long texts (up to 20 000 lines, 100 000-character lines); sentence / line-shape / label-rule families of C03; the relative-jump (every distance), directive-prefix layout and limit families of C02; single-token mutations of the small repository programs; {} process invocations ({} programs accepted by `verify`)", if quick { 11 } else { 256 }, spawned, proc_accepted));
    ctx.set("accepted_programs", all.accepted);
    ctx.set("compiled_and_loaded_without_panic", all.ok);
    let mut fj = Json::obj();
    for (k, v) in fam {
        fj.set(&k, v);
    }
    ctx.set("families", fj);
    let mut sj = Json::obj();
    for (k, v) in &all.sizes {
        sj.set(&format!("{}-{}", k, k + 15), *v);
    }
    ctx.set("loaded_image_sizes", sj);
    ctx.set("process_invocations", spawned);
    ctx.set("distinct_outcomes", all.bad.len() + 1);
    ctx.sample(orgs[orgs.len() / 2].clone());
    ctx.sample(sizes[sizes.len() / 3].chars().take(200).collect::<String>());
    ctx.sample(sentences[sentences.len() / 7].clone());
    ctx.set("determinism_selftest", format!("{:?}", pipeline(&orgs[77])) == format!("{:?}", pipeline(&orgs[77])));
    ctx.assume("a panic is matched to a known finding only when REF-ASM's layout class of the program explains it (backward .ORG; image over 255 bytes; image of 241-255 bytes); the same panic on any other layout is a new violation");
    ctx.finish();
}
