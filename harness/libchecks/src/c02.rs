//! C02 — translation validation of the assembler: for every enumerated program the byte image,
//! per-line byte groups and limits produced by `Translator::compile` must equal REF-ASM's.
use crate::c03::{case_line, unesc};
use crate::conv;
use crate::corpus::{self, HDR};
use emulator_2a_lib::compiler::Translator;
use emulator_2a_lib::parser::AsmParser;
use mc::{Ctx, Json};
use refmodel::asm::{assemble, Layout};
use refmodel::mrasm::{self, RLine, ROp};
use std::collections::{BTreeMap, BTreeSet};

#[derive(Debug)]
pub enum Verdict {
    /// compared; `bytes` emitted
    Ok { bytes: usize, labels_resolved: usize },
    /// outside C02's scope (not accepted, backward .ORG, image > 240 bytes)
    Skip(&'static str),
    Bad(String, String),
}

/// Validate one program text through both paths (AST -> compile, text -> parse -> compile).
pub fn validate(src: &str) -> Verdict {
    let rasm = match mrasm::parse(src) {
        Ok(a) => a,
        Err(_) => return Verdict::Skip("not a program of the language"),
    };
    let rbc = match assemble(&rasm) {
        Ok(b) => b,
        Err(Layout::BackwardOrg { .. }) => return Verdict::Skip("backward .ORG (C06)"),
        Err(Layout::TooLarge { .. }) => return Verdict::Skip("image beyond the address space (C06)"),
        Err(Layout::UndefinedLabel(l)) => return Verdict::Bad("machinery/ref-asm".into(), format!("REF-ASM met undefined label {} in an accepted program", l)),
    };
    let image = rbc.bytes();
    if image.len() > 240 {
        return Verdict::Skip("image larger than the RAM (C06)");
    }
    let asm_from_ref = conv::asm(&rasm);
    for path in ["ast", "text"] {
        let asm = if path == "ast" {
            asm_from_ref.clone()
        } else {
            match mc::catch(|| AsmParser::parse(src)) {
                Ok(Ok(a)) => a,
                // accept/reject and parser panics are C03's subject
                _ => return Verdict::Skip("the parser does not accept this program of the language (C03)"),
            }
        };
        let r = mc::catch(|| {
            let bc = Translator::compile(&asm);
            (asm.clone(), bc)
        });
        let (asm, bc) = match r {
            Ok(v) => v,
            Err(p) => {
                return Verdict::Bad(
                    format!("panic/{}/{}", p.file(), panic_class(&p.msg)),
                    format!("[{} path] Translator::compile panicked at {}: {}", path, p.site(), p.msg.lines().next().unwrap_or("")),
                )
            }
        };
        let got: Vec<u8> = bc.bytes().cloned().collect();
        if bc.lines.len() != rasm.lines.len() {
            return Verdict::Bad("lines/count".into(), format!("[{} path] {} source lines reported, {} expected", path, bc.lines.len(), rasm.lines.len()));
        }
        for (i, (line, bytes)) in bc.lines.iter().enumerate() {
            if *line != asm.lines[i] {
                return Verdict::Bad("lines/source-line-mismatch".into(), format!("[{} path] line {} reported as {:?}, source has {:?}", path, i, line, asm.lines[i]));
            }
            if *bytes != rbc.lines[i] {
                let kind = match &rasm.lines[i] {
                    RLine::Inst(ins, _) => ins.m,
                    RLine::Label(..) => "label",
                    RLine::Empty(_) => "empty",
                };
                let uses_label = matches!(&rasm.lines[i], RLine::Inst(ins, _) if !mrasm::refs_of(ins).is_empty());
                return Verdict::Bad(
                    format!("encoding/{}{}", kind, if uses_label { "/label-operand" } else { "" }),
                    format!("[{} path] line {} `{}`: expected bytes {:02x?} observed {:02x?} (whole image expected {:02x?} observed {:02x?})", path, i, src.lines().nth(i + 1).unwrap_or("").trim(), rbc.lines[i], bytes, image, got),
                );
            }
        }
        if got != image {
            return Verdict::Bad("image".into(), format!("[{} path] image expected {:02x?} observed {:02x?}", path, image, got));
        }
        if conv::stack_code(bc.stacksize) != rbc.stack {
            return Verdict::Bad("limits/stacksize".into(), format!("[{} path] stacksize expected {} observed {:?}", path, rbc.stack, bc.stacksize));
        }
        if conv::prog_code(bc.programsize) != rbc.prog {
            return Verdict::Bad("limits/programsize".into(), format!("[{} path] programsize expected {} observed {:?}", path, rbc.prog, bc.programsize));
        }
    }
    let labels_resolved = rasm.lines.iter().filter(|l| matches!(l, RLine::Inst(i, _) if !mrasm::refs_of(i).is_empty())).count();
    Verdict::Ok { bytes: image.len(), labels_resolved }
}

pub fn panic_class(msg: &str) -> &'static str {
    if msg.contains("Labels must be defined") {
        "label-lookup"
    } else if msg.contains("not implemented") || msg.contains("does not work yet") {
        "unimplemented"
    } else if msg.contains("Compilation aborted") {
        "backward-org"
    } else if msg.contains("overflow") {
        "arithmetic-overflow"
    } else if msg.contains("index out of bounds") || msg.contains("out of range") {
        "index-out-of-range"
    } else {
        "other"
    }
}

/// One canonical line per (mnemonic, operand-shape signature, register): the instruction shapes.
pub fn shapes(all_regs: bool) -> Vec<String> {
    let mut seen: BTreeSet<String> = BTreeSet::new();
    let mut out = vec![];
    for l in corpus::sentence_lines(false) {
        let src = corpus::wrap(&l);
        if let Ok(a) = mrasm::parse(&src) {
            if let Some(RLine::Inst(i, _)) = a.lines.get(1) {
                let sig = format!(
                    "{} {:?}",
                    i.m,
                    i.ops
                        .iter()
                        .map(|o| match o {
                            ROp::Reg(r) => format!("R{}", if all_regs { *r } else { (*r == 3) as u8 * 3 }),
                            ROp::Di(r) => format!("Di{}", if all_regs { *r } else { (*r == 3) as u8 * 3 }),
                            ROp::Ddi(r) => format!("Ddi{}", if all_regs { *r } else { (*r == 3) as u8 * 3 }),
                            ROp::MemReg(r) => format!("M{}", if all_regs { *r } else { (*r == 3) as u8 * 3 }),
                            ROp::MemConst(mrasm::RConst::Num(_)) => "Mc".into(),
                            ROp::MemConst(mrasm::RConst::Label(_)) => "Ml".into(),
                            ROp::Const(mrasm::RConst::Num(_)) => "C".into(),
                            ROp::Const(mrasm::RConst::Label(_)) => "Cl".into(),
                            ROp::Num(_) => "N".into(),
                            ROp::Label(_) => "L".into(),
                            ROp::Bytes(b) => format!("B{}", b.len()),
                            ROp::Words(w) => format!("W{}", w.len()),
                            ROp::Stack(s) => format!("S{}", s),
                            ROp::Prog(p) => format!("P{}", p.min(&1)),
                        })
                        .collect::<Vec<_>>()
                );
                if seen.insert(sig) {
                    out.push(l.trim().to_string());
                }
            }
        }
    }
    out
}

fn prefix_alphabet() -> Vec<&'static str> {
    vec![
        ".ORG 0", ".ORG 1", ".ORG 5", ".ORG 0x7F", ".BYTE 0", ".BYTE 1", ".BYTE 2", ".BYTE 7", ".DB 1", ".DB 1, 2, 3", ".DW 0x1234", ".DW 0, 0xFFFF, 0x00FF", ".EQU Q 9", "NOP", "JR LBL",
        "LD R0, (LBL)", "MOV (LBL), (lbl2)",
        // lines that emit nothing
        "*STACKSIZE 32", "*PROGRAMSIZE 7", "; only a comment", "",
    ]
}

/// (b): prefix sequences x shapes, with labels before every element and after, referenced
/// forward, backward and in mixed case.
pub fn layout_programs(depth: usize, shapes: &[String]) -> Vec<String> {
    let alpha = prefix_alphabet();
    let mut seqs: Vec<Vec<&str>> = vec![vec![]];
    let mut cur: Vec<Vec<&str>> = vec![vec![]];
    for _ in 0..depth {
        let mut next = vec![];
        for s in &cur {
            for a in &alpha {
                let mut t = s.clone();
                t.push(*a);
                next.push(t);
            }
        }
        seqs.extend(next.iter().cloned());
        cur = next;
    }
    let mut out = vec![];
    for seq in &seqs {
        for sh in shapes {
            let mut s = String::from(HDR);
            s.push_str("LBL:\n.EQU lbl2 7\n");
            for (i, el) in seq.iter().enumerate() {
                s.push_str(&format!("A{}:\n {}\n", i, el));
            }
            s.push_str(&format!("Here:\n {}\nZ:\n", sh));
            // references: forward / backward / mixed case, through every referencing form
            s.push_str(" JR here\n JMP Z\n CALL z\n LD R1, HERE\n ST (Z), R1\n MOV (here), z\n JCC LBL\n LD R2, (lbl2)\n");
            for i in 0..seq.len() {
                s.push_str(&format!(" JR A{}\n LD R0, a{}\n", i, i));
            }
            s.push_str("End:\n JZS End\n JNS eND\n");
            out.push(s);
        }
    }
    out
}

/// (c): relative jumps from every address to every target.
pub fn jump_programs(full: bool) -> Vec<String> {
    let mut out = vec![];
    let conds = ["JR", "JCS", "JCC", "JZS", "JZC", "JNS", "JNC"];
    let froms: Vec<usize> = if full { (0..=0xEC).collect() } else { vec![0, 1, 2, 0x7D, 0x7E, 0x7F, 0x80, 0x81, 0xEB, 0xEC] };
    for &a in &froms {
        for t in 0..=255usize {
            let c = conds[(a + t) % conds.len()];
            // through .EQU: every (address, target) pair is expressible
            out.push(format!("{}.EQU T {}\n.ORG {}\n {} T\n", HDR, t, a, c));
            // through real labels where the layout allows it
            if t >= a + 2 && t <= 0xEF {
                out.push(format!("{}.ORG {}\n {} T\n.ORG {}\nT:\n NOP\n", HDR, a, c, t));
            } else if t <= a {
                out.push(format!("{}.ORG {}\nT:\n.ORG {}\n {} t\n", HDR, t, a, c));
            }
        }
    }
    out
}

/// (d): limits.
pub fn limit_programs() -> Vec<String> {
    let mut out = vec![];
    for st in ["", "*STACKSIZE 0", "*STACKSIZE 16", "*STACKSIZE 32", "*STACKSIZE 48", "*STACKSIZE 64", "*STACKSIZE NOSET", "*stacksize noset"] {
        for pr in ["", "*PROGRAMSIZE AUTO", "*PROGRAMSIZE NOSET", "*PROGRAMSIZE 0", "*PROGRAMSIZE 1", "*PROGRAMSIZE 255", "*programsize auto"] {
            out.push(format!("{}{}\n{}\n NOP\n", HDR, st, pr));
            out.push(format!("{} NOP\n{}\n{}\n", HDR, pr, st));
            out.push(format!("{}{}\n*STACKSIZE 48\n{}\n*PROGRAMSIZE 9\n NOP\n", HDR, st, pr));
        }
    }
    out
}

#[derive(Default)]
struct Out {
    n: u64,
    ok: u64,
    bytes: u64,
    labels: u64,
    skipped: BTreeMap<&'static str, u64>,
    bad: BTreeMap<String, (u64, Vec<(String, String)>)>,
}

fn run_family(name: &str, inputs: &[String], fam: &mut BTreeMap<String, Json>, all: &mut Out) {
    let outs = mc::par_ranges(inputs.len(), 256, |r| {
        let mut o = Out::default();
        for i in r {
            o.n += 1;
            mc::watch::progress(|| case_line(&inputs[i]));
            match validate(&inputs[i]) {
                Verdict::Ok { bytes, labels_resolved } => {
                    o.ok += 1;
                    o.bytes += bytes as u64;
                    o.labels += labels_resolved as u64;
                }
                Verdict::Skip(r) => *o.skipped.entry(r).or_default() += 1,
                Verdict::Bad(k, w) => {
                    let e = o.bad.entry(k).or_default();
                    e.0 += 1;
                    if e.1.len() < 4 {
                        e.1.push((case_line(&inputs[i]), w));
                    }
                }
            }
        }
        o
    });
    let mut f = Out::default();
    for o in outs {
        f.n += o.n;
        f.ok += o.ok;
        f.bytes += o.bytes;
        f.labels += o.labels;
        for (k, v) in o.skipped {
            *f.skipped.entry(k).or_default() += v;
        }
        for (k, (c, cases)) in o.bad {
            let e = all.bad.entry(k).or_default();
            e.0 += c;
            for cs in cases {
                if e.1.len() < 4 {
                    e.1.push((cs.0, format!("[{}] {}", name, cs.1)));
                }
            }
        }
    }
    let mut j = Json::obj();
    j.set("programs", f.n).set("validated", f.ok).set("bytes_compared", f.bytes).set("label_operands_resolved", f.labels);
    let mut sk = Json::obj();
    for (k, v) in &f.skipped {
        sk.set(k, *v);
    }
    j.set("out_of_scope", sk);
    fam.insert(name.to_string(), j);
    all.n += f.n;
    all.ok += f.ok;
    all.bytes += f.bytes;
    all.labels += f.labels;
}

pub fn run() {
    let mut ctx = Ctx::from_args("translation_validation");
    if let Some(f) = ctx.replay_file.clone() {
        let text = std::fs::read_to_string(&f).expect("replay file");
        let l = text.lines().next().unwrap_or("");
        let src = unesc(l.strip_prefix("src ").unwrap_or(l));
        println!("program:\n{}", src);
        let v = validate(&src);
        println!("{:?}", v);
        if let Verdict::Bad(k, w) = v {
            ctx.violation(k, w, text.clone());
        }
        ctx.finish();
    }
    let quick = ctx.quick();
    let mut fam = BTreeMap::new();
    let mut all = Out::default();
    // (a) every accepted sentence of the sentence family
    let sentences: Vec<String> = corpus::sentence_lines(true).iter().map(|l| corpus::wrap(l)).collect();
    run_family("a:instruction-shapes", &sentences, &mut fam, &mut all);
    // (b) layouts
    let sh_reduced = shapes(false);
    let sh_all = shapes(true);
    let lay = layout_programs(2, &sh_all);
    run_family("b:layout-depth1or2-all-shapes", &lay, &mut fam, &mut all);
    let lay2 = layout_programs(if quick { 2 } else { 3 }, &sh_reduced.iter().step_by(if quick { 2 } else { 1 }).cloned().collect::<Vec<_>>());
    run_family("b:layout-deeper-reduced-shapes", &lay2, &mut fam, &mut all);
    // (c) jumps
    let jumps = jump_programs(true);
    run_family("c:relative-jumps", &jumps, &mut fam, &mut all);
    // label / .EQU definitions and references in every letter-case combination, through every referencing form
    let labels = corpus::label_programs();
    run_family("label-case-combinations", &labels, &mut fam, &mut all);
    // (d) limits
    let limits = limit_programs();
    run_family("d:limits", &limits, &mut fam, &mut all);
    // repository programs
    let repo: Vec<String> = corpus::repo_programs().into_iter().map(|p| p.1).collect();
    run_family("repository-programs", &repo, &mut fam, &mut all);
    run_family("long-texts", &corpus::long_programs(), &mut fam, &mut all);
    // label sets: every ordered triple of a name set chosen to sort differently under different
    // collations (underscore vs letters vs digits, upper vs lower case), all defined, all referenced
    {
        let names = ["a", "B", "_", "a_", "aB", "A0", "a1", "_a", "__", "Z", "z_", "Za", "z0", "wait_end", "waitx", "WAIT"];
        let mut progs = vec![];
        for x in names {
            for y in names {
                for z in names {
                    let set = [x, y, z];
                    if set.iter().enumerate().any(|(i, a)| set.iter().skip(i + 1).any(|b| a.eq_ignore_ascii_case(b))) {
                        continue;
                    }
                    progs.push(format!("{}{}:\n NOP\n{}:\n LD R0, {}\n.EQU {} 0x55\n LD R1, ({})\n JR {}\n CALL {}\n ST ({}), R0\n", HDR, x, y, z.to_lowercase(), z, x.to_uppercase(), y, x, z));
                }
            }
        }
        run_family("label-name-sets", &progs, &mut fam, &mut all);
    }
    for (k, (n, cases)) in &all.bad {
        for (l, w) in cases.iter().take(3) {
            if k.starts_with("machinery/") {
                ctx.machinery_error(w.clone());
            } else {
                ctx.violation(k.clone(), format!("{} ({} programs in class)", w, n), l.clone());
            }
        }
    }
    ctx.set("programs", all.ok);
    ctx.set("disagreements_checked", all.ok * 2);
    ctx.set("evaluations", all.n);
    ctx.set("distinct_nontrivial", all.ok);
    ctx.set("rule", "every enumerated program accepted by the language and laid out within the 240-byte RAM is compiled through both paths (Asm built from the reference AST; text through AsmParser::parse) and the per-line byte groups, the image and both limits are compared with REF-ASM; programs = programs validated (each distinct text), disagreements_checked = path comparisons made");
    ctx.set("exhaustive", true);
    ctx.set("bounds", format!("instruction shapes: {} (all registers) / {} (reduced); prefix alphabet of {} directives and instructions, sequences to depth {} for all shapes and {} for (quick: every 2nd of the) reduced shapes; relative jumps from {} addresses to all 256 targets; 8 x 7 limit settings in 3 orders", sh_all.len(), sh_reduced.len(), prefix_alphabet().len(), 2, if quick { 2 } else { 3 }, 237));
    ctx.set("bytes_compared", all.bytes);
    ctx.set("label_operands_resolved", all.labels);
    let mut fj = Json::obj();
    for (k, v) in fam {
        fj.set(&k, v);
    }
    ctx.set("families", fj);
    ctx.sample(lay[lay.len() / 2].clone());
    ctx.sample(jumps[jumps.len() / 3].clone());
    ctx.sample(sentences[sentences.len() / 5].clone());
    ctx.set("determinism_selftest", format!("{:?}", validate(&lay[3])) == format!("{:?}", validate(&lay[3])));
    ctx.assume("REF-ASM (refmodel/src/asm.rs): encoding table written out from the documented instruction table; label = address of the next byte, names case-folded, a later definition replaces an earlier one; DEC with memory operands uses the 0x54-0x5F forms the control store implements");
    ctx.assume("programs with a backward .ORG or an image beyond 240 bytes are C06's subject and skipped here");
    ctx.finish();
}
