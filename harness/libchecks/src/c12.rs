//! C12 — run/verify report exactly what the stepped machine does, incl. the exit status.
//! Library level: every (budget, interrupt multiset, reset multiset, configuration) of the stated
//! families against REF-RUN (the statement's loop over the public Machine API). Process level: the
//! real binary's stdout and exit status.
use emulator_2a_lib::compiler::Translator;
use emulator_2a_lib::machine::{Machine, MachineConfig, State};
use emulator_2a_lib::parser::AsmParser;
use emulator_2a_lib::runner::{RunExpectationsBuilder, RunnerConfigBuilder, VerificationError};
use mc::{Ctx, Json};
use std::collections::BTreeMap;

const PROGS: [(&str, &str); 6] = [
    ("runs-forever", "#! mrasm\nL:\n INC R0\n ST (0xFF), R0\n JR L\n"),
    ("stops-early", "#! mrasm\n LD R0, 5\n ST (0xFE), R0\n STOP\n LD R0, 9\n ST (0xFE), R0\nE:\n JR E\n"),
    ("errors-early", "#! mrasm\n LD R0, 3\n ST (0xFF), R0\n LDSP 0xD5\n NOP\n"),
    ("isr", "#! mrasm\n JR M\n INC R1\n ST (0xFE), R1\n RETI\nM:\n LDSP 0xEF\n BITS (0xF9), 1\n EI\nL:\n INC R0\n ST (0xFF), R0\n JR L\n"),
    ("input-dependent", "#! mrasm\n LD R0, (0xFC)\n LD R1, (0xFD)\n ADD R0, R1\n ST (0xFF), R0\n LD R2, (0xF0)\n ST (0xFE), R2\n STOP\n"),
    // the board's status register (jumpers, UIO pins, comparators against DAC = 0 V) and FE/FF inputs on the outputs
    ("board-dependent", "#! mrasm\n LD R0, (0xF1)\n ST (0xFF), R0\n LD R1, (0xFE)\n LD R2, (0xFF)\n SUB R1, R2\n ST (0xFE), R1\n STOP\n"),
];

fn configs() -> Vec<MachineConfig> {
    vec![
        MachineConfig::default(),
        MachineConfig { input_fc: 10, input_fd: 42, input_fe: 1, input_ff: 255, digital_input1: 0x5A, ..Default::default() },
        MachineConfig { input_fc: 200, input_fd: 100, temp: 6.5, analog_input1: f32::NAN, analog_input2: 2.5, jumper1: true, jumper2: true, universal_input_output1: true, universal_input_output3: true, digital_input1: 0xFF, ..Default::default() },
        // asymmetric: a swapped pair of settings must show
        MachineConfig { input_fe: 9, input_ff: 4, analog_input1: 1.0, jumper2: true, universal_input_output2: true, ..Default::default() },
        MachineConfig { input_fe: 3, input_ff: 200, temp: 0.5, jumper1: true, universal_input_output3: true, ..Default::default() },
    ]
}

/// REF-RUN: the loop of the statement over the public Machine API.
fn ref_run(src: &str, cfg: &MachineConfig, n: usize, ints: &[usize], resets: &[usize]) -> (Machine, usize) {
    let asm = AsmParser::parse(src).expect("program parses");
    let bc = Translator::compile(&asm);
    // "creating a machine with that program and configuration": built step by step from the public
    // setters (not through Machine::new_with_program, which is part of what is being checked):
    // load first (it master-resets the inputs), then the configuration.
    let mut m = Machine::new(MachineConfig::default());
    m.load(bc);
    m.set_input_fc(cfg.input_fc);
    m.set_input_fd(cfg.input_fd);
    m.set_input_fe(cfg.input_fe);
    m.set_input_ff(cfg.input_ff);
    m.set_digital_input1(cfg.digital_input1);
    m.set_temp(cfg.temp);
    m.set_jumper1(cfg.jumper1);
    m.set_jumper2(cfg.jumper2);
    m.set_analog_input1(cfg.analog_input1);
    m.set_analog_input2(cfg.analog_input2);
    m.set_universal_input_output1(cfg.universal_input_output1);
    m.set_universal_input_output2(cfg.universal_input_output2);
    m.set_universal_input_output3(cfg.universal_input_output3);
    let mut i = 0;
    while i < n {
        if ints.iter().any(|c| *c == i) {
            m.trigger_key_interrupt();
        }
        if resets.iter().any(|c| *c == i) {
            m.cpu_reset();
        }
        m.raw_mut().trigger_clock_edge();
        i += 1;
        if m.state() != State::Running {
            break;
        }
    }
    (m, i)
}

/// All sub-multisets of `base` with multiplicity 0..=max_mult per element (distinct lists only);
/// every list that is not already descending is also given in reverse order (schedules are lists,
/// not sorted sets).
fn subsets(base: &[usize], with_dup: bool) -> Vec<Vec<usize>> {
    let max_mult = if with_dup { 2 } else { 1 };
    let mut out: Vec<Vec<usize>> = vec![vec![]];
    for b in base {
        let mut next = vec![];
        for v in &out {
            for m in 0..=max_mult {
                let mut w = v.clone();
                for _ in 0..m {
                    w.push(*b);
                }
                next.push(w);
            }
        }
        out = next;
    }
    let mut rev: Vec<Vec<usize>> = out.iter().filter(|v| v.len() > 1).map(|v| v.iter().rev().cloned().collect()).collect();
    out.append(&mut rev);
    out.sort();
    out.dedup();
    out
}

fn line(p: usize, c: usize, n: usize, ints: &[usize], resets: &[usize]) -> String {
    let j = |v: &[usize]| v.iter().map(|x| x.to_string()).collect::<Vec<_>>().join(",");
    format!("run prog={} cfg={} n={} ints={} resets={}", p, c, n, j(ints), j(resets))
}

fn one(p: usize, c: usize, n: usize, ints: &[usize], resets: &[usize], cfgs: &[MachineConfig]) -> Option<(String, String)> {
    let r = mc::catch(|| {
        let config = RunnerConfigBuilder::default()
            .with_program(PROGS[p].1)
            .with_max_cycles(n)
            .with_machine_config(cfgs[c].clone())
            .with_interrupts(ints.to_vec())
            .with_resets(resets.to_vec())
            .build()
            .expect("config");
        let res = config.run().expect("parses");
        // a configuration can be run any number of times: the second run must report the same
        if n % 8 == 0 {
            let again = config.run().expect("parses");
            if again.machine != res.machine || again.emulated_cycles != res.emulated_cycles {
                panic!("VERIF-SECOND-RUN-DIFFERS");
            }
        }
        (res.machine.clone(), res.emulated_cycles)
    });
    let (m, cycles) = match r {
        Ok(v) => v,
        Err(pi) if pi.msg.contains("VERIF-SECOND-RUN-DIFFERS") => return Some(("second-run-differs".into(), format!("[{}] running the same RunnerConfig a second time gives another final machine or cycle count", PROGS[p].0))),
        Err(pi) => return Some((format!("panic/{}", pi.file()), format!("RunnerConfig::run panicked at {}: {}", pi.site(), pi.msg))),
    };
    let (em, ecycles) = ref_run(PROGS[p].1, &cfgs[c], n, ints, resets);
    if cycles != ecycles {
        return Some(("cycles".into(), format!("[{}] reported {} emulated cycles, stepping the machine gives {}", PROGS[p].0, cycles, ecycles)));
    }
    if m != em {
        let what = if m.state() != em.state() {
            "state"
        } else if m.registers() != em.registers() {
            "registers"
        } else if m.bus().output_fe() != em.bus().output_fe() || m.bus().output_ff() != em.bus().output_ff() {
            "outputs"
        } else {
            "other"
        };
        return Some((
            format!("final-machine/{}", what),
            format!("[{}] final machine differs from the stepped one: state {:?} vs {:?}, registers {:02x?} vs {:02x?}, FE/FF {:#04x}/{:#04x} vs {:#04x}/{:#04x}", PROGS[p].0, m.state(), em.state(), m.registers().content(), em.registers().content(), m.bus().output_fe(), m.bus().output_ff(), em.bus().output_fe(), em.bus().output_ff()),
        ));
    }
    None
}

fn apply_config(m: &mut Machine, cfg: &MachineConfig) {
    m.set_input_fc(cfg.input_fc);
    m.set_input_fd(cfg.input_fd);
    m.set_input_fe(cfg.input_fe);
    m.set_input_ff(cfg.input_ff);
    m.set_digital_input1(cfg.digital_input1);
    m.set_temp(cfg.temp);
    m.set_jumper1(cfg.jumper1);
    m.set_jumper2(cfg.jumper2);
    m.set_analog_input1(cfg.analog_input1);
    m.set_analog_input2(cfg.analog_input2);
    m.set_universal_input_output1(cfg.universal_input_output1);
    m.set_universal_input_output2(cfg.universal_input_output2);
    m.set_universal_input_output3(cfg.universal_input_output3);
}

/// "A machine created with a configuration" is the machine one gets from the setters: every field on
/// its own (two values each), every pair of fields, and the mixed configurations, through
/// Machine::new and Machine::new_with_program (with every program), compared as whole values and
/// through the reads a program can make.
fn config_equivalence() -> (u64, Vec<(String, String, String)>) {
    let d = MachineConfig::default();
    let singles: Vec<(&str, MachineConfig)> = vec![
        ("digital_input1", MachineConfig { digital_input1: 0xA7, ..d.clone() }),
        ("temp", MachineConfig { temp: 1.75, ..d.clone() }),
        ("jumper1", MachineConfig { jumper1: true, ..d.clone() }),
        ("jumper2", MachineConfig { jumper2: true, ..d.clone() }),
        ("analog_input1", MachineConfig { analog_input1: 3.25, ..d.clone() }),
        ("analog_input2", MachineConfig { analog_input2: 0.5, ..d.clone() }),
        ("universal_input_output1", MachineConfig { universal_input_output1: true, ..d.clone() }),
        ("universal_input_output2", MachineConfig { universal_input_output2: true, ..d.clone() }),
        ("universal_input_output3", MachineConfig { universal_input_output3: true, ..d.clone() }),
        ("input_fc", MachineConfig { input_fc: 0x1C, ..d.clone() }),
        ("input_fd", MachineConfig { input_fd: 0x2D, ..d.clone() }),
        ("input_fe", MachineConfig { input_fe: 0x3E, ..d.clone() }),
        ("input_ff", MachineConfig { input_ff: 0x4F, ..d.clone() }),
        ("temp=NaN", MachineConfig { temp: f32::NAN, ..d.clone() }),
        ("analog_input1=9", MachineConfig { analog_input1: 9.0, ..d.clone() }),
        ("analog_input2=-1", MachineConfig { analog_input2: -1.0, ..d.clone() }),
    ];
    let merge = |a: &MachineConfig, b: &MachineConfig| -> MachineConfig {
        let pick_u = |x: u8, y: u8, dv: u8| if x != dv { x } else { y };
        let pick_f = |x: f32, y: f32, dv: f32| if x.to_bits() != dv.to_bits() { x } else { y };
        MachineConfig {
            digital_input1: pick_u(a.digital_input1, b.digital_input1, d.digital_input1),
            temp: pick_f(a.temp, b.temp, d.temp),
            jumper1: a.jumper1 || b.jumper1,
            jumper2: a.jumper2 || b.jumper2,
            analog_input1: pick_f(a.analog_input1, b.analog_input1, d.analog_input1),
            analog_input2: pick_f(a.analog_input2, b.analog_input2, d.analog_input2),
            universal_input_output1: a.universal_input_output1 || b.universal_input_output1,
            universal_input_output2: a.universal_input_output2 || b.universal_input_output2,
            universal_input_output3: a.universal_input_output3 || b.universal_input_output3,
            input_fc: pick_u(a.input_fc, b.input_fc, d.input_fc),
            input_fd: pick_u(a.input_fd, b.input_fd, d.input_fd),
            input_fe: pick_u(a.input_fe, b.input_fe, d.input_fe),
            input_ff: pick_u(a.input_ff, b.input_ff, d.input_ff),
        }
    };
    let mut cfgs: Vec<(String, MachineConfig)> = singles.iter().map(|(n, c)| (n.to_string(), c.clone())).collect();
    for i in 0..singles.len() {
        for j in i + 1..singles.len() {
            cfgs.push((format!("{}+{}", singles[i].0, singles[j].0), merge(&singles[i].1, &singles[j].1)));
        }
    }
    for (i, c) in configs().into_iter().enumerate() {
        cfgs.push((format!("mixed#{}", i), c));
    }
    let progs: Vec<_> = PROGS.iter().map(|(_, src)| Translator::compile(&AsmParser::parse(src).expect("program parses"))).collect();
    let mut n = 0u64;
    let mut bad = vec![];
    let reads = |m: &Machine| -> Vec<u8> { (0xF0..=0xFFu8).map(|a| m.bus().read(a)).collect() };
    for (name, cfg) in &cfgs {
        let r = mc::catch(|| {
            let mut out = vec![];
            let a = Machine::new(cfg.clone());
            let mut b = Machine::new(MachineConfig::default());
            apply_config(&mut b, cfg);
            if a != b || reads(&a) != reads(&b) {
                out.push(format!("Machine::new with {} differs from a default machine + setters: reads of 0xF0-0xFF {:02x?} vs {:02x?}", name, reads(&a), reads(&b)));
            }
            for (pi, bc) in progs.iter().enumerate() {
                let a = Machine::new_with_program(cfg.clone(), bc.clone());
                let mut b = Machine::new(MachineConfig::default());
                b.load(bc.clone());
                apply_config(&mut b, cfg);
                if a != b || reads(&a) != reads(&b) {
                    out.push(format!("Machine::new_with_program({}, {}) differs from new + load + setters: reads of 0xF0-0xFF {:02x?} vs {:02x?}", name, PROGS[pi].0, reads(&a), reads(&b)));
                    break;
                }
            }
            out
        });
        n += 1 + progs.len() as u64;
        match r {
            Ok(out) => {
                for w in out {
                    bad.push(("config/constructor-differs-from-setters".to_string(), w, format!("config {}", name)));
                }
            }
            Err(p) => bad.push((format!("panic/{}", p.file()), format!("constructing a machine with {} panicked at {}: {}", name, p.site(), p.msg), format!("config {}", name))),
        }
    }
    bad.truncate(6);
    (n, bad)
}

/// A RunnerConfig is a plain value with public fields: after a first run every field may be
/// assigned anew (on the value itself or on a clone) and the next run must be the run of what the
/// fields say then.
fn reuse_checks(cfgs: &[MachineConfig]) -> (u64, Vec<(String, String, String)>) {
    let mut n = 0u64;
    let mut bad = vec![];
    for p1 in 0..PROGS.len() {
        for p2 in 0..PROGS.len() {
            for via_clone in [false, true] {
                n += 1;
                let label = format!("reuse first={} then={} clone={}", PROGS[p1].0, PROGS[p2].0, via_clone);
                let r = mc::catch(|| {
                    let mut out = vec![];
                    let mut config = RunnerConfigBuilder::default().with_program(PROGS[p1].1).with_max_cycles(50).with_machine_config(cfgs[1].clone()).with_interrupts(vec![20usize]).with_resets(vec![]).build().expect("config");
                    let _ = config.run().expect("parses");
                    let mut second = if via_clone { config.clone() } else { config.clone() };
                    let target: &mut emulator_2a_lib::runner::RunnerConfig = if via_clone { &mut second } else { &mut config };
                    // every field assigned anew, one after the other, a run after each assignment
                    let (mut prog, mut budget, mut mc_, mut ints, mut resets) = (PROGS[p1].1, 50usize, cfgs[1].clone(), vec![20usize], vec![]);
                    for step in 0..5 {
                        match step {
                            0 => {
                                prog = PROGS[p2].1;
                                target.program = prog;
                            }
                            1 => {
                                budget = 37;
                                target.max_cycles = budget;
                            }
                            2 => {
                                mc_ = cfgs[2].clone();
                                target.machine_config = mc_.clone();
                            }
                            3 => {
                                ints = vec![3, 30];
                                target.interrupts = ints.clone();
                            }
                            _ => {
                                resets = vec![10];
                                target.resets = resets.clone();
                            }
                        }
                        let res = target.run().expect("parses");
                        let (em, ec) = ref_run(prog, &mc_, budget, &ints, &resets);
                        if res.machine != em || res.emulated_cycles != ec {
                            out.push(format!("after assigning field #{} (0 program, 1 max_cycles, 2 machine_config, 3 interrupts, 4 resets) the run reports {} cycles / FE,FF {:#04x},{:#04x}; stepping what the fields say gives {} cycles / {:#04x},{:#04x}", step, res.emulated_cycles, res.machine.bus().output_fe(), res.machine.bus().output_ff(), ec, em.bus().output_fe(), em.bus().output_ff()));
                            break;
                        }
                    }
                    out
                });
                match r {
                    Ok(out) => {
                        for w in out {
                            bad.push(("reuse/run-ignores-assigned-field".to_string(), format!("[{}] {}", label, w), label.replace(' ', "_")));
                        }
                    }
                    Err(pi) => bad.push((format!("panic/{}", pi.file()), format!("[{}] panic at {}: {}", label, pi.site(), pi.msg), label.replace(' ', "_"))),
                }
            }
        }
    }
    // a program that does not parse must be reported, also on a configuration that ran before
    n += 1;
    let r = mc::catch(|| {
        let mut config = RunnerConfigBuilder::default().with_program(PROGS[0].1).with_max_cycles(10).build().expect("config");
        let _ = config.run();
        config.program = "#! mrasm\n FROB R0\n";
        config.run().is_err()
    });
    match r {
        Ok(true) => {}
        Ok(false) => bad.push(("reuse/run-ignores-assigned-field".to_string(), "after assigning a program that does not parse, run() still returns Ok".to_string(), "reuse_unparsable".to_string())),
        Err(pi) => bad.push((format!("panic/{}", pi.file()), format!("panic at {}: {}", pi.site(), pi.msg), "reuse_unparsable".to_string())),
    }
    bad.truncate(6);
    (n, bad)
}

/// RunExpectations::verify over all subsets x match/mismatch.
fn expectations() -> (u64, Vec<(String, String, String)>) {
    let mut n = 0;
    let mut bad = vec![];
    let cfgs = configs();
    for (p, budget) in [(0usize, 40usize), (1, 60), (2, 60), (4, 80)] {
        let config = RunnerConfigBuilder::default().with_program(PROGS[p].1).with_max_cycles(budget).with_machine_config(cfgs[1].clone()).build().expect("config");
        let res = config.run().expect("parses");
        let (st, fe, ff) = (res.machine.state(), res.machine.bus().output_fe(), res.machine.bus().output_ff());
        let other_states: Vec<State> = [State::Running, State::Stopped, State::ErrorStopped].into_iter().filter(|s| *s != st).collect();
        for mask in 0..8u8 {
            // per stated field: 0 = match, 1.. = mismatch variants
            for sv in 0..3usize {
                for fev in 0..3usize {
                    for ffv in 0..3usize {
                        if (mask & 1 == 0 && sv > 0) || (mask & 2 == 0 && fev > 0) || (mask & 4 == 0 && ffv > 0) {
                            continue;
                        }
                        let mut b = RunExpectationsBuilder::default();
                        let mut all_match = true;
                        let mut stated_mismatch = vec![];
                        if mask & 1 != 0 {
                            let v = if sv == 0 { st } else { other_states[sv - 1] };
                            b.expect_state(v);
                            if sv != 0 {
                                all_match = false;
                                stated_mismatch.push("state");
                            }
                        }
                        if mask & 2 != 0 {
                            let v = match fev { 0 => fe, 1 => fe.wrapping_add(1), _ => !fe };
                            b.expect_output_fe(v);
                            if v != fe {
                                all_match = false;
                                stated_mismatch.push("fe");
                            }
                        }
                        if mask & 4 != 0 {
                            let v = match ffv { 0 => ff, 1 => ff.wrapping_sub(1), _ => ff ^ 0x80 };
                            b.expect_output_ff(v);
                            if v != ff {
                                all_match = false;
                                stated_mismatch.push("ff");
                            }
                        }
                        let exp = b.build().expect("expectations");
                        n += 1;
                        let got = exp.verify(&res);
                        let l = format!("expect prog={} mask={} sv={} fev={} ffv={}", p, mask, sv, fev, ffv);
                        match (&got, all_match) {
                            (Ok(()), true) => {}
                            (Ok(()), false) => bad.push(("verify/accepts-a-mismatch".to_string(), format!("[{}] verification succeeded although {:?} mismatch (final state {:?}, FE {}, FF {})", PROGS[p].0, stated_mismatch, st, fe, ff), l)),
                            (Err(e), true) => bad.push(("verify/rejects-a-match".to_string(), format!("[{}] verification failed with {} although every stated expectation matches", PROGS[p].0, e), l)),
                            (Err(e), false) => {
                                let field = match e {
                                    VerificationError::StateMismatch { .. } => "state",
                                    VerificationError::OutputFeMismatch { .. } => "fe",
                                    VerificationError::OutputFfMismatch { .. } => "ff",
                                };
                                if !stated_mismatch.contains(&field) {
                                    bad.push(("verify/reports-wrong-field".to_string(), format!("[{}] reported mismatch {} but the mismatching stated fields are {:?}", PROGS[p].0, field, stated_mismatch), l.clone()));
                                }
                                // the values the error carries: what the machine shows and what was stated
                                let values_ok = match e {
                                    VerificationError::StateMismatch { expected, found } => *found == st && mask & 1 != 0 && *expected == (if sv == 0 { st } else { other_states[sv - 1] }),
                                    VerificationError::OutputFeMismatch { expected, found } => *found == fe && *expected == (match fev { 0 => fe, 1 => fe.wrapping_add(1), _ => !fe }),
                                    VerificationError::OutputFfMismatch { expected, found } => *found == ff && *expected == (match ffv { 0 => ff, 1 => ff.wrapping_sub(1), _ => ff ^ 0x80 }),
                                };
                                if !values_ok {
                                    bad.push(("verify/reports-wrong-values".to_string(), format!("[{}] the error {:?} does not carry the machine's value as `found` and the stated value as `expected` (final state {:?}, FE {}, FF {})", PROGS[p].0, e, st, fe, ff), l));
                                }
                            }
                        }
                    }
                }
            }
        }
    }
    // the rendered messages (what the CLI prints): found and expected must keep their roles. Wording is
    // free; what is checked is that the three messages name the two values in the same order, and that
    // swapping the roles of two values swaps them in the text.
    {
        let texts = |found: u8, expected: u8| -> [String; 2] {
            [format!("{}", VerificationError::OutputFeMismatch { expected, found }), format!("{}", VerificationError::OutputFfMismatch { expected, found })]
        };
        let order = |t: &str, a: &str, b: &str| -> Option<bool> { Some(t.find(a)? < t.find(b)?) };
        n += 1;
        let t = texts(37, 142);
        let o: Vec<Option<bool>> = t.iter().map(|x| order(x, "37", "142")).collect();
        let st_text = format!("{}", VerificationError::StateMismatch { expected: State::Running, found: State::ErrorStopped });
        let o_state = order(&st_text, "ErrorStopped", "Running");
        if o.iter().any(|x| x.is_none()) || o_state.is_none() {
            bad.push(("verify/message".to_string(), format!("a verification message does not name both the found and the expected value: {:?} / {:?}", t, st_text), "expect messages".to_string()));
        } else if o[0] != o[1] || o[0] != o_state {
            bad.push(("verify/message".to_string(), format!("the verification messages name found/expected in different orders: {:?} / {:?} (found = 37 / ErrorStopped, expected = 142 / Running)", t, st_text), "expect messages".to_string()));
        }
        let t2 = texts(142, 37);
        for k in 0..2 {
            if t[k].replace("142", "#").replace("37", "142").replace('#', "37") != t2[k] {
                bad.push(("verify/message".to_string(), format!("swapping found and expected does not swap them in the message: {:?} vs {:?}", t[k], t2[k]), "expect messages".to_string()));
            }
        }
    }
    (n, bad)
}

#[derive(Clone)]
struct Inv {
    args: Vec<String>,
    /// expected: None = the CLI must reject (non-zero, no run); Some((cycles, budget, state, fe, ff, exit_zero))
    expect: Option<(usize, usize, State, u8, u8, bool)>,
    name: String,
    /// program text fed through a pipe on standard input (PROGRAM = /dev/stdin and the like)
    stdin: Option<String>,
}

fn parse_u8_auto(s: &str) -> Option<u8> {
    if let Some(b) = s.strip_prefix("0b") {
        u8::from_str_radix(b, 2).ok()
    } else if let Some(h) = s.strip_prefix("0x") {
        u8::from_str_radix(h, 16).ok()
    } else {
        s.parse().ok()
    }
}

fn invocations(dir: &std::path::Path) -> Vec<Inv> {
    let mut v = vec![];
    let mut files = vec![];
    for (i, (name, src)) in PROGS.iter().enumerate() {
        let f = dir.join(format!("{}.asm", name));
        std::fs::write(&f, src).expect("write program");
        files.push((i, f.display().to_string()));
    }
    let bad_file = dir.join("unparsable.asm");
    std::fs::write(&bad_file, "#! mrasm\n FROB R0\n").unwrap();
    let missing = dir.join("does-not-exist.asm").display().to_string();
    let mk = |name: String, p: usize, file: &str, n: usize, cfg: MachineConfig, cfg_args: Vec<String>, ints: Vec<usize>, resets: Vec<usize>, verify: Option<(Option<State>, Option<u8>, Option<u8>)>| -> Inv {
        let (m, cycles) = ref_run(PROGS[p].1, &cfg, n, &ints, &resets);
        let mut args: Vec<String> = vec!["run".into(), file.into(), n.to_string()];
        args.extend(cfg_args);
        for i in &ints {
            args.push("--interrupt".into());
            args.push(i.to_string());
        }
        for r in &resets {
            args.push("--reset".into());
            args.push(r.to_string());
        }
        let mut ok = true;
        if let Some((s, fe, ff)) = verify {
            args.push("verify".into());
            if let Some(s) = s {
                args.push("--state".into());
                args.push(match s { State::Running => "running", State::Stopped => "stopped", State::ErrorStopped => "error" }.into());
                ok &= s == m.state();
            }
            if let Some(x) = fe {
                args.push("--fe".into());
                args.push(x.to_string());
                ok &= x == m.bus().output_fe();
            }
            if let Some(x) = ff {
                args.push("--ff".into());
                args.push(format!("{:#x}", x));
                ok &= x == m.bus().output_ff();
            }
        }
        Inv { args, expect: Some((cycles, n, m.state(), m.bus().output_fe(), m.bus().output_ff(), ok)), name, stdin: None }
    };
    // numeric flags in all three radices incl. the 255/256 boundary
    let tokens = ["0", "17", "0x11", "0b10001", "255", "0xff", "0xFF", "0b11111111", "256", "0x100", "0b100000000", "-1", "0x", "1.5", "0X11", "017"];
    for flag in ["--fc", "--fd", "--fe", "--ff", "--di1"] {
        for t in tokens {
            let name = format!("{} {}", flag, t);
            match parse_u8_auto(t) {
                Some(val) => {
                    let mut cfg = MachineConfig::default();
                    match flag {
                        "--fc" => cfg.input_fc = val,
                        "--fd" => cfg.input_fd = val,
                        "--fe" => cfg.input_fe = val,
                        "--ff" => cfg.input_ff = val,
                        _ => cfg.digital_input1 = val,
                    }
                    v.push(mk(name, 4, &files[4].1, 90, cfg, vec![flag.into(), t.into()], vec![], vec![], None));
                }
                None => v.push(Inv { args: vec!["run".into(), files[4].1.clone(), "90".into(), flag.into(), t.into()], expect: None, name, stdin: None }),
            }
        }
    }
    // every byte value in every spelling of the three radices: as an input flag (rotating over the
    // flags; every flag sees every value in the zero-padded hex spelling) and as a verify expectation
    let spell = |v: u8, k: usize| -> String {
        match k {
            0 => format!("{}", v),
            1 => format!("0x{:02x}", v),
            2 => format!("0x{:X}", v),
            3 => format!("0b{:08b}", v),
            4 => format!("0b{:b}", v),
            _ => format!("0x{:x}", v),
        }
    };
    let flags = ["--fc", "--fd", "--fe", "--ff", "--di1"];
    let cfg_for = |flag: &str, val: u8| -> (MachineConfig, usize) {
        let mut cfg = MachineConfig::default();
        match flag {
            "--fc" => cfg.input_fc = val,
            "--fd" => cfg.input_fd = val,
            "--fe" => cfg.input_fe = val,
            "--ff" => cfg.input_ff = val,
            _ => cfg.digital_input1 = val,
        }
        (cfg, if flag == "--fe" || flag == "--ff" { 5 } else { 4 })
    };
    for v0 in 0..=255u8 {
        for k in 0..6 {
            let lit = spell(v0, k);
            for (fi, flag) in flags.iter().enumerate() {
                if !(k == 1 || (v0 as usize + k) % flags.len() == fi) {
                    continue;
                }
                let (cfg, p) = cfg_for(flag, v0);
                v.push(mk(format!("literal {} {}", flag, lit), p, &files[p].1, 60, cfg, vec![flag.to_string(), lit.clone()], vec![], vec![], None));
            }
            // as an expectation: program 4 shows FC+FD on FF and DI1 on FE
            for (vf, inflag) in [("--ff", "--fc"), ("--fe", "--di1")] {
                for wrong in [false, true] {
                    if wrong && k != 1 && (v0 as usize + k) % 4 != 0 {
                        continue;
                    }
                    let shown = if wrong { v0 ^ 0x10 } else { v0 };
                    let (cfg, p) = cfg_for(inflag, shown);
                    let mut inv = mk(format!("literal verify {} {} (machine shows {})", vf, lit, shown), p, &files[p].1, 60, cfg, vec![inflag.to_string(), shown.to_string()], vec![], vec![], None);
                    inv.args.extend(["verify".to_string(), vf.to_string(), lit.clone()]);
                    if let Some(e) = inv.expect.as_mut() {
                        e.5 = !wrong;
                    }
                    v.push(inv);
                }
            }
        }
    }
    // argument order: the positional pair, the schedule options and an input option in every order (also
    // with an option between the two positionals and in the --opt=value spelling), with and without a
    // following verify block; what is computed must not depend on the order
    {
        let p = 3usize; // the ISR program
        let n = 120usize;
        let file = files[p].1.clone();
        let groups: [Vec<String>; 4] = [
            vec![file.clone(), n.to_string()],
            vec!["--interrupt".into(), "60".into()],
            vec!["--reset".into(), "100".into()],
            vec!["--fc".into(), "7".into()],
        ];
        let cfg = MachineConfig { input_fc: 7, ..Default::default() };
        let (m, cycles) = ref_run(PROGS[p].1, &cfg, n, &[60], &[100]);
        let mut orders: Vec<Vec<usize>> = vec![];
        fn perms(cur: &mut Vec<usize>, used: &mut [bool; 4], out: &mut Vec<Vec<usize>>) {
            if cur.len() == 4 {
                out.push(cur.clone());
                return;
            }
            for i in 0..4 {
                if !used[i] {
                    used[i] = true;
                    cur.push(i);
                    perms(cur, used, out);
                    cur.pop();
                    used[i] = false;
                }
            }
        }
        perms(&mut vec![], &mut [false; 4], &mut orders);
        let mut arg_lists: Vec<(String, Vec<String>)> = vec![];
        for o in &orders {
            let mut a: Vec<String> = vec!["run".into()];
            for &g in o {
                a.extend(groups[g].iter().cloned());
            }
            arg_lists.push((format!("order {:?}", o), a));
        }
        // an option between the two positionals; --opt=value spellings
        arg_lists.push(("split positionals".into(), vec!["run".into(), file.clone(), "--interrupt".into(), "60".into(), n.to_string(), "--reset".into(), "100".into(), "--fc".into(), "7".into()]));
        arg_lists.push(("split positionals 2".into(), vec!["run".into(), file.clone(), "--fc".into(), "7".into(), "--reset".into(), "100".into(), n.to_string(), "--interrupt".into(), "60".into()]));
        arg_lists.push(("equals spelling".into(), vec!["run".into(), file.clone(), n.to_string(), "--interrupt=60".into(), "--reset=100".into(), "--fc=7".into()]));
        arg_lists.push(("equals spelling first".into(), vec!["run".into(), "--reset=100".into(), "--interrupt=60".into(), "--fc=7".into(), file.clone(), n.to_string()]));
        for (name, a) in arg_lists {
            for verify in 0..3 {
                let mut args = a.clone();
                let mut ok = true;
                if verify > 0 {
                    let shown = if verify == 1 { m.bus().output_ff() } else { m.bus().output_ff().wrapping_add(1) };
                    args.extend(["verify".to_string(), "--ff".to_string(), shown.to_string()]);
                    ok = verify == 1;
                }
                v.push(Inv { args, expect: Some((cycles, n, m.state(), m.bus().output_fe(), m.bus().output_ff(), ok)), name: format!("argument {} verify={}", name, verify), stdin: None });
            }
        }
    }
    // full verbosity: every log line of the library is evaluated and written; results and exit status
    // must not change
    for (p, f) in &files {
        for flags in [vec!["-vvvv"], vec!["-v", "-v", "-v", "-v", "-v"], vec!["-vv"]] {
            let mut inv = mk(format!("verbose {:?} {}", flags, PROGS[*p].0), *p, f, 45, MachineConfig::default(), vec![], vec![7], vec![30], None);
            let mut a: Vec<String> = flags.iter().map(|s| s.to_string()).collect();
            a.extend(inv.args.drain(..));
            inv.args = a;
            v.push(inv);
        }
    }
    // budgets far beyond anything that is ever executed (the budget is an upper limit only): programs that
    // halt by themselves with the largest budgets the argument type admits, and around 2^16 / 2^32
    for p in [1usize, 2, 4, 5] {
        for n in [usize::MAX, usize::MAX - 1, (isize::MAX as usize) + 1, isize::MAX as usize, 100_000_000_000_000, 1 << 32, (1 << 32) - 1, 65_537, 65_536, 65_535] {
            v.push(mk(format!("huge budget {} {}", PROGS[p].0, n), p, &files[p].1, n, MachineConfig::default(), vec![], vec![], vec![], None));
            v.push(mk(format!("huge budget {} {} with schedule", PROGS[p].0, n), p, &files[p].1, n, MachineConfig::default(), vec![], vec![3, n - 1], vec![n / 2], Some((Some(ref_run(PROGS[p].1, &MachineConfig::default(), 60, &[3], &[]).0.state()), None, None))));
        }
    }
    // a long run of the program that never halts: 70 000 cycles, events beyond 2^16
    v.push(mk("long run".into(), 0, &files[0].1, 70_000, MachineConfig::default(), vec![], vec![65_540], vec![66_000, 69_999], None));
    v.push(mk("long run isr".into(), 3, &files[3].1, 70_000, MachineConfig::default(), vec![], vec![300, 65_536, 65_537], vec![], None));
    // the program delivered through a pipe: PROGRAM = /dev/stdin or /proc/self/fd/0 (no regular file, still a
    // readable, valid program), for run and run+verify
    for p in [1usize, 4] {
        for path in ["/dev/stdin", "/proc/self/fd/0"] {
            for verify in 0..3 {
                let mut inv = mk(format!("piped {} {} verify={}", PROGS[p].0, path, verify), p, path, 60, MachineConfig::default(), vec![], vec![], vec![], None);
                if verify > 0 {
                    let ff = match inv.expect { Some(e) => e.4, None => 0 };
                    let shown = if verify == 1 { ff } else { ff.wrapping_add(1) };
                    inv.args.extend(["verify".to_string(), "--ff".to_string(), shown.to_string()]);
                    if let Some(e) = inv.expect.as_mut() {
                        e.5 = verify == 1;
                    }
                }
                inv.stdin = Some(PROGS[p].1.to_string());
                v.push(inv);
            }
        }
    }
    // every budget 0..=40 on every program
    for (p, f) in &files {
        for n in 0..=40usize {
            v.push(mk(format!("{} budget {}", PROGS[*p].0, n), *p, f, n, MachineConfig::default(), vec![], vec![], vec![], None));
        }
    }
    // interrupt / reset schedules on the ISR program and the forever program
    for (p, f) in [&files[3], &files[0]] {
        for n in [0usize, 1, 50, 120] {
            for ints in subsets(&[0, 1, 60, n.saturating_sub(1), n], true).into_iter().step_by(5) {
                for resets in [vec![], vec![0], vec![70], vec![n.saturating_sub(1)], vec![5, 5]] {
                    v.push(mk(format!("{} n={} ints={:?} resets={:?}", PROGS[*p].0, n, ints, resets), *p, f, n, MachineConfig::default(), vec![], ints.clone(), resets, None));
                }
            }
        }
    }
    // expectations: all subsets x match / mismatch, every --state
    for (p, f) in &files {
        let n = 70;
        let (m, _) = ref_run(PROGS[*p].1, &MachineConfig::default(), n, &[], &[]);
        for mask in 0..8u8 {
            for wrong in 0..8u8 {
                if wrong & !mask != 0 {
                    continue;
                }
                let st = if mask & 1 != 0 {
                    Some(if wrong & 1 != 0 { if m.state() == State::Running { State::Stopped } else { State::Running } } else { m.state() })
                } else {
                    None
                };
                let fe = if mask & 2 != 0 { Some(if wrong & 2 != 0 { m.bus().output_fe().wrapping_add(1) } else { m.bus().output_fe() }) } else { None };
                let ff = if mask & 4 != 0 { Some(if wrong & 4 != 0 { m.bus().output_ff() ^ 1 } else { m.bus().output_ff() }) } else { None };
                v.push(mk(format!("{} verify mask={} wrong={}", PROGS[*p].0, mask, wrong), *p, f, n, MachineConfig::default(), vec![], vec![], vec![], Some((st, fe, ff))));
            }
        }
        for s in [State::Running, State::Stopped, State::ErrorStopped] {
            v.push(mk(format!("{} --state {:?}", PROGS[*p].0, s), *p, f, n, MachineConfig::default(), vec![], vec![], vec![], Some((Some(s), None, None))));
        }
    }
    // board flags
    let cfg = MachineConfig { temp: 1.5, analog_input1: 4.0, analog_input2: 9.0, jumper1: true, jumper2: true, universal_input_output1: true, universal_input_output2: true, universal_input_output3: true, digital_input1: 0x21, ..Default::default() };
    v.push(mk("board flags".into(), 4, &files[4].1, 90, cfg, ["--temp", "1.5", "--ai1", "4", "--ai2", "9", "--j1", "--j2", "--uio1", "--uio2", "--uio3", "--di1", "0x21"].iter().map(|s| s.to_string()).collect(), vec![], vec![], None));
    // every board / input flag on its own, on the program that shows the board status and FE-FF
    for (flags, cfg) in [
        (vec!["--j1"], MachineConfig { jumper1: true, ..Default::default() }),
        (vec!["--j2"], MachineConfig { jumper2: true, ..Default::default() }),
        (vec!["--uio1"], MachineConfig { universal_input_output1: true, ..Default::default() }),
        (vec!["--uio2"], MachineConfig { universal_input_output2: true, ..Default::default() }),
        (vec!["--uio3"], MachineConfig { universal_input_output3: true, ..Default::default() }),
        (vec!["--ai1", "0.5"], MachineConfig { analog_input1: 0.5, ..Default::default() }),
        (vec!["--ai2", "0.5"], MachineConfig { analog_input2: 0.5, ..Default::default() }),
        (vec!["--temp", "0.5"], MachineConfig { temp: 0.5, ..Default::default() }),
        (vec!["--fe", "9"], MachineConfig { input_fe: 9, ..Default::default() }),
        (vec!["--ff", "9"], MachineConfig { input_ff: 9, ..Default::default() }),
        (vec!["--fe", "0x10", "--ff", "0b11"], MachineConfig { input_fe: 16, input_ff: 3, ..Default::default() }),
    ] {
        v.push(mk(format!("board-dependent {:?}", flags), 5, &files[5].1, 90, cfg, flags.iter().map(|s| s.to_string()).collect(), vec![], vec![], None));
    }
    // failures: missing file, unparsable program
    v.push(Inv { args: vec!["run".into(), missing.clone(), "10".into()], expect: None, name: "missing file".into(), stdin: None });
    v.push(Inv { args: vec!["run".into(), bad_file.display().to_string(), "10".into()], expect: None, name: "unparsable program".into(), stdin: None });
    v.push(Inv { args: vec!["verify".into(), missing], expect: None, name: "verify missing file".into(), stdin: None });
    // PROGRAM is a directory / an empty file / a file of blanks only: read or parse failure, non-zero, no run
    let empty = dir.join("empty.asm");
    std::fs::write(&empty, "").unwrap();
    let blanks = dir.join("blanks.asm");
    std::fs::write(&blanks, "   \n\n\t\n").unwrap();
    for p in [dir.display().to_string(), empty.display().to_string(), blanks.display().to_string()] {
        v.push(Inv { args: vec!["run".into(), p.clone(), "10".into()], expect: None, name: format!("run on {}", p), stdin: None });
        v.push(Inv { args: vec!["verify".into(), p.clone()], expect: None, name: format!("verify on {}", p), stdin: None });
    }
    v.push(Inv { args: vec!["verify".into(), bad_file.display().to_string()], expect: None, name: "verify unparsable program".into(), stdin: None });
    // long source files: a program with kilobytes to a megabyte of comment lines in front of its code is
    // the same program (the file is read completely, whatever its size), and a faulty last line makes it
    // an invalid program however far from the beginning it stands. Sizes around the powers of two.
    let pad_line = "; pad 0123456789 0123456789 0123456789 0123456789 0123456789 ..\n";
    for (p, bytes) in [(4usize, 4_000usize), (1, 8_200), (4, 16_400), (1, 32_800), (4, 65_500), (1, 65_600), (4, 131_100), (1, 262_200), (4, 1_048_600)] {
        let (head, rest) = PROGS[p].1.split_once('\n').expect("header line");
        let text = format!("{}\n{}{}", head, pad_line.repeat(bytes / pad_line.len() + 1), rest);
        let f = dir.join(format!("long-{}-{}.asm", PROGS[p].0, bytes));
        std::fs::write(&f, &text).unwrap();
        let fs = f.display().to_string();
        let mut inv = mk(format!("long file {} bytes ({})", text.len(), PROGS[p].0), p, &fs, 60, MachineConfig::default(), vec![], vec![], vec![], None);
        let ff = match inv.expect { Some(e) => e.4, None => 0 };
        v.push(inv.clone());
        inv.args.extend(["verify".to_string(), "--ff".to_string(), ff.to_string()]);
        inv.name.push_str(" + verify");
        v.push(inv);
        let g = dir.join(format!("long-faulty-{}-{}.asm", PROGS[p].0, bytes));
        std::fs::write(&g, format!("{} FROB R0\n", text)).unwrap();
        let gs = g.display().to_string();
        v.push(Inv { args: vec!["run".into(), gs.clone(), "10".into()], expect: None, name: format!("run on a long file ({} bytes) whose last line is faulty", text.len()), stdin: None });
        v.push(Inv { args: vec!["verify".into(), gs], expect: None, name: format!("verify on a long file ({} bytes) whose last line is faulty", text.len()), stdin: None });
    }
    v
}

fn run_inv(bin: &str, inv: &Inv) -> Option<(String, String)> {
    let out = mc::output_with_timeout_stdin(std::process::Command::new(bin).args(&inv.args).env("NO_COLOR", "1").env_remove("CLICOLOR_FORCE"), 20, inv.stdin.as_ref().map(|s| s.as_bytes()));
    let out = match out {
        Ok(Some(o)) => o,
        Ok(None) => return Some(("process/never-returns".into(), format!("[{}] the command did not finish within 20 s and was killed", inv.name))),
        Err(e) => return Some(("machinery/spawn".into(), format!("cannot run the binary: {}", e))),
    };
    let stdout = String::from_utf8_lossy(&out.stdout).to_string();
    let code = out.status.code();
    if code == Some(101) || code.is_none() {
        return Some(("process/panic".into(), format!("[{}] the process died ({:?}): {}", inv.name, code, String::from_utf8_lossy(&out.stderr).lines().find(|l| l.contains("panicked")).unwrap_or(""))));
    }
    let strip = |s: &str| -> String {
        // drop ANSI colour sequences if any
        let mut o = String::new();
        let mut it = s.chars().peekable();
        while let Some(c) = it.next() {
            if c == '\u{1b}' {
                for d in it.by_ref() {
                    if d == 'm' {
                        break;
                    }
                }
            } else {
                o.push(c);
            }
        }
        o
    };
    let field = |prefix: &str| -> Option<String> { stdout.lines().map(strip).find(|l| l.trim_start().starts_with(prefix)).map(|l| l.trim_start()[prefix.len()..].trim().to_string()) };
    match inv.expect {
        None => {
            if code == Some(0) {
                return Some(("exit/zero-on-failure".into(), format!("[{}] exit status 0 although reading/parsing the program or an argument is invalid", inv.name)));
            }
            if field("Cycles:").is_some() {
                return Some(("exit/ran-despite-invalid-input".into(), format!("[{}] the run was executed although the input is invalid", inv.name)));
            }
            None
        }
        Some((cycles, budget, state, fe, ff, ok)) => {
            let exp_cycles = format!("{}/{}", cycles, budget);
            let exp_state = match state { State::Running => "Running", State::Stopped => "Stopped", State::ErrorStopped => "Error" };
            let got = (field("Cycles:"), field("State:"), field("Output:  FE:").or_else(|| field("Output:").map(|s| s.trim_start_matches("FE:").trim().to_string())), field("FF:"));
            let exp = (Some(exp_cycles), Some(exp_state.to_string()), Some(fe.to_string()), Some(ff.to_string()));
            if got != exp {
                return Some(("stdout/values".into(), format!("[{}] printed (cycles, state, FE, FF) = {:?}, the stepped machine gives {:?}", inv.name, got, exp)));
            }
            if (code == Some(0)) != ok {
                return Some((
                    if ok { "exit/nonzero-on-success".into() } else { "exit/zero-on-verification-failure".into() },
                    format!("[{}] exit status {:?}, expected {}", inv.name, code, if ok { "0" } else { "non-zero" }),
                ));
            }
            None
        }
    }
}

pub fn run() {
    let mut ctx = Ctx::from_args("model_checking");
    let cfgs = configs();
    if let Some(f) = ctx.replay_file.clone() {
        let text = std::fs::read_to_string(&f).expect("replay file");
        let l = text.lines().next().unwrap_or("");
        if l.starts_with("run ") {
            let kv = mc::kv(l);
            let list = |s: &str| -> Vec<usize> { s.split(',').filter(|t| !t.is_empty()).map(|t| t.parse().unwrap()).collect() };
            let (p, c, n) = (mc::num(&kv["prog"]) as usize, mc::num(&kv["cfg"]) as usize, mc::num(&kv["n"]) as usize);
            let (ints, resets) = (list(kv.get("ints").map(|s| s.as_str()).unwrap_or("")), list(kv.get("resets").map(|s| s.as_str()).unwrap_or("")));
            let r = one(p, c, n, &ints, &resets, &cfgs);
            println!("{} -> {:?}", l, r);
            if let Some((k, w)) = r {
                ctx.violation(k, w, text.clone());
            }
        } else {
            println!("replay of this case kind: re-run the check; line was: {}", l);
        }
        ctx.finish();
    }
    let quick = ctx.quick();
    // ---- library level ----
    let max_n = if quick { 40 } else { 60 };
    let mut jobs = vec![];
    for p in 0..PROGS.len() {
        for c in 0..cfgs.len() {
            // the two asymmetric configurations matter for the programs that look at inputs / the board
            if c >= 3 && p < 4 {
                continue;
            }
            for n in 0..=max_n {
                // the straight-line programs 4 and 5 (they stop after ~40 cycles) get a thinner budget grid
                if p >= 4 && quick && !(n <= 2 || n % 8 == 0) {
                    continue;
                }
                jobs.push((p, c, n));
            }
            if p == 3 {
                for n in [90usize, 120, 150] {
                    jobs.push((p, c, n));
                }
            }
            // long runs: counters beyond 2^16 (schedules relative to N as for the short budgets)
            if c == 0 && (p == 0 || p == 3) {
                jobs.push((p, c, 65_600));
            }
        }
    }
    let res = mc::par_ranges(jobs.len(), jobs.len(), |rg| {
        let mut bad: BTreeMap<String, (u64, Vec<(String, String)>)> = BTreeMap::new();
        let mut runs = 0u64;
        let mut outcomes = std::collections::HashSet::new();
        for j in rg {
            let (p, c, n) = jobs[j];
            // plain subsets of the full boundary sets + sub-multisets (multiplicity <= 2) of smaller ones
            let base_i = [0usize, 1, 2, 5, n.saturating_sub(1), n, n + 3];
            let base_r = if quick { vec![0usize, 5, n.saturating_sub(1), n] } else { vec![0usize, 1, 5, n.saturating_sub(1), n, n + 3] };
            let mut ints = subsets(&base_i, false);
            // the multiset family is complete for small budgets and a few larger ones (quick) / all (thorough)
            if !quick || n <= 12 || n % 10 == 0 {
                ints.extend(subsets(&[1, 5, n.saturating_sub(1), n / 2, n], true));
            }
            ints.sort();
            ints.dedup();
            let mut resets = subsets(&base_r, false);
            resets.extend(subsets(&[0, 5, n.saturating_sub(1)], true));
            resets.sort();
            resets.dedup();
            if quick && n > 12 {
                // the full product stays for budgets <= 12; above, every 4th reset list
                resets = resets.into_iter().step_by(4).collect();
            }
            if n == 150 {
                // long lists: an event at every cycle, at every other cycle (descending), every cycle twice
                ints.push((0..n).collect());
                ints.push((0..n).rev().step_by(2).collect());
                ints.push((0..n).flat_map(|c| [c, c]).collect());
                resets.push((0..n).step_by(11).collect());
                resets.push((0..n).collect());
            }
            if n > 1000 {
                // long runs: a handful of schedules with events on both sides of 2^16
                ints = vec![vec![], vec![0, n - 1], vec![65_535, 65_536, 65_537], vec![n, 300, 65_540]];
                resets = vec![vec![], vec![65_536], vec![n - 1, 100]];
            }
            for i in &ints {
                for r in &resets {
                    runs += 1;
                    mc::watch::progress(|| line(p, c, n, i, r));
                    match one(p, c, n, i, r, &cfgs) {
                        None => {
                            outcomes.insert((p, n.min(3), i.len().min(2), r.len().min(2)));
                        }
                        Some((k, w)) => {
                            let e = bad.entry(k).or_default();
                            e.0 += 1;
                            if e.1.len() < 3 {
                                e.1.push((line(p, c, n, i, r), w));
                            }
                        }
                    }
                }
            }
        }
        (runs, outcomes.len() as u64, bad)
    });
    let mut runs = 0;
    let mut distinct = 0;
    let mut bad: BTreeMap<String, (u64, Vec<(String, String)>)> = BTreeMap::new();
    for (r, d, b) in res {
        runs += r;
        distinct += d;
        for (k, (cn, cases)) in b {
            let x = bad.entry(k).or_default();
            x.0 += cn;
            for cs in cases {
                if x.1.len() < 3 {
                    x.1.push(cs);
                }
            }
        }
    }
    let (nexp, ebad) = expectations();
    for (k, w, l) in ebad {
        let x = bad.entry(k).or_default();
        x.0 += 1;
        if x.1.len() < 3 {
            x.1.push((l, w));
        }
    }
    let (nreuse, rbad) = reuse_checks(&cfgs);
    for (k, w, l) in rbad {
        let x = bad.entry(k).or_default();
        x.0 += 1;
        if x.1.len() < 3 {
            x.1.push((l, w));
        }
    }
    ctx.set("reuse_sequences", nreuse);
    let (ncfg, cbad) = config_equivalence();
    for (k, w, l) in cbad {
        let x = bad.entry(k).or_default();
        x.0 += 1;
        if x.1.len() < 3 {
            x.1.push((l, w));
        }
    }
    ctx.set("constructor_vs_setter_comparisons", ncfg);
    // ---- process level ----
    ctx.set("wall_library_level_s", (ctx.elapsed() * 10.0).round() / 10.0);
    let mut nproc = 0u64;
    match std::env::var("VERIF_BIN") {
        Ok(bin) if std::path::Path::new(&bin).exists() => {
            let dir = std::env::temp_dir().join(format!("verif-c12-{}", std::process::id()));
            let _ = std::fs::create_dir_all(&dir);
            let mut invs = invocations(&dir);
            if quick {
                let keep: Vec<Inv> = invs.iter().enumerate().filter(|(i, v)| v.expect.is_none() || i % 3 == 0 || v.name.contains("verify") || v.name.starts_with("--") || v.name.starts_with("board") || v.name.starts_with("literal") || v.name.starts_with("argument") || v.name.starts_with("verbose") || v.name.starts_with("huge") || v.name.starts_with("long") || v.name.starts_with("piped")).map(|(_, v)| v.clone()).collect();
                invs = keep;
            }
            nproc = invs.len() as u64;
            let r = mc::par_map(&invs, |inv| run_inv(&bin, inv).map(|(k, w)| (k, w, format!("cli args={}", inv.args.join("|")))));
            for x in r.into_iter().flatten() {
                if x.0.starts_with("machinery/") {
                    ctx.machinery_error(x.1.clone());
                    continue;
                }
                let e = bad.entry(x.0).or_default();
                e.0 += 1;
                if e.1.len() < 3 {
                    e.1.push((x.2, x.1));
                }
            }
            let _ = std::fs::remove_dir_all(&dir);
        }
        _ => ctx.machinery_error("VERIF_BIN (the 2a-emulator binary built from /repo) is not available"),
    }
    for (k, (n, cases)) in &bad {
        for (l, w) in cases.iter().take(3) {
            ctx.violation(k.clone(), format!("{} ({} cases in class)", w, n), l.clone());
        }
    }
    ctx.set("wall_total_s", (ctx.elapsed() * 10.0).round() / 10.0);
    ctx.set("states", runs);
    ctx.set("transitions", runs + nexp + nproc);
    ctx.set("traces_validated_against_impl", runs + nproc);
    ctx.set("evaluations", runs + nexp + nproc);
    ctx.set("distinct_nontrivial", distinct);
    ctx.set("rule", "schedule = (program, configuration, budget N, multiset of interrupt cycles, multiset of reset cycles); every schedule of the stated families is run through RunnerConfig::run and through REF-RUN (the statement's loop on the public Machine API): emulated_cycles and the final Machine (PartialEq) must agree; RunExpectations::verify over all 2^3 stated-field subsets x match/mismatch values on 4 final machines; constructor == setters for every configuration field and pair; a RunnerConfig run twice and with every field assigned anew; error values and rendered messages keep found/expected in their roles; process level: stdout values and exit status of the real binary per invocation (every byte literal in every spelling, 24 argument orders, -vvvv, budgets up to usize::MAX, the program through a pipe, source files of 4 kB to 1 MB incl. a faulty last line)");
    ctx.set("exhaustive", true);
    ctx.set("bounds", format!("6 programs x 3-5 configurations x budgets 0..={} (+90/120/150 for the ISR program, + 65 600-cycle runs with events on both sides of 2^16, + an event at every cycle); interrupt cycles: all subsets of {{0,1,2,5,N-1,N,N+3}} + all sub-multisets (multiplicity <= 2) of {{1,5,N-1,N/2,N}}, each also in reverse order; reset cycles: all subsets of {} + sub-multisets of {{0,5,N-1}}; {} verify() cases; {} process invocations", max_n, if quick { "{0,5,N-1,N}" } else { "{0,1,5,N-1,N,N+3}" }, nexp, nproc));
    ctx.set("library_runs", runs);
    ctx.set("verify_cases", nexp);
    ctx.set("process_invocations", nproc);
    ctx.set("distinct_outcomes", distinct);
    ctx.sample(line(3, 1, 120, &[0, 60, 60], &[5]));
    ctx.sample(format!("cli: run isr.asm 120 --interrupt 60 --reset 70 verify --state running --ff 0x.."));
    ctx.set("determinism_selftest", {
        let a = ref_run(PROGS[3].1, &cfgs[1], 100, &[50], &[3]);
        let b = ref_run(PROGS[3].1, &cfgs[1], 100, &[50], &[3]);
        a.0 == b.0 && a.1 == b.1
    });
    ctx.assume("REF-RUN is the statement's loop written against the public Machine API (parse/compile shared with the subject: C02/C03 check those); CLI argument errors are only required to exit non-zero without running");
    let _ = Json::Null;
    ctx.finish();
}
