//! C04 — key interrupts: taken once, at an instruction boundary, transparently.
//! Trigger-point enumeration (deviation bound 0/1/2) over a generated program family, every run
//! observed edge by edge on the real machine and compared with its own uninterrupted twin.
use crate::isa_sweep::{self as sw, Case};
use crate::mach;
use emulator_2a_lib::machine::{Machine, State};
use mc::{Ctx, Json};
use refmodel::isa::Cpu;
use std::collections::{BTreeMap, HashSet};

const MAIN: u8 = 0x30;
const SUB: u8 = 0x28; // main's subroutine: INC R2 ; RET
const ISR_END: u8 = 0x28; // ISR code (and its own subroutine) lives in [2, 0x28)
const CNT: u8 = 0xD0; // ISR-maintained counter cell

#[derive(Clone)]
struct Prog {
    name: String,
    ram: [u8; 240],
    end: u8,
    isr: usize,
    enable_bit: bool,
    /// 0 = fresh machine; 1 / 2 = the machine first ran a program that set the key-edge enable bit
    /// and IE for 90 edges (with one interrupt taken), then got a cpu reset / master reset, and only
    /// then this program's RAM image (a "second life": nothing of the first may leak into it)
    pre: u8,
}

fn bodies() -> Vec<(&'static str, Vec<u8>)> {
    vec![
        ("ADD;ADC", vec![0x64, 0x72]),
        ("MUL", vec![0xB4]),
        ("DIV", vec![0xC9]),
        ("CMP;JCS;INC", vec![0xF1, 0x20, 0x21, 0x01, 0x46]),
        ("MOV R0,(R2+)", vec![0xFA, 0x10]),
        ("MOV R1,((R2+))", vec![0xFE, 0x11]),
        ("PUSH;POP", vec![0x10, 0x15]),
        ("PUSHF;POPF", vec![0x18, 0x1C]),
        ("CALL", vec![0x28, SUB]),
        ("JR taken", vec![0x20, 0x02, 0x02, 0x02]),
        ("TST;JCS untaken", vec![0x48, 0x21, 0x01, 0x02]),
        ("DI..EI", vec![0x0C, 0x44, 0x45, 0x08]),
        ("LDFR 0;NOP;LDFR 8", vec![0xFB, 0x00, 0x44, 0x02, 0xFB, 0x08, 0x44]),
        ("ST (0xFE),R0", vec![0xF0, 0x1F, 0xFE]),
        // one instruction per remaining opcode block, so that every "int:" word of the control store is exercised
        ("NOP;CLR R1", vec![0x02, 0x05]),
        ("COM;LSR;NEG", vec![0x31, 0x38, 0x36]),
        ("DEC R1;DEC (R2)", vec![0x51, 0x56]),
        ("SUB R1,R2", vec![0x89]),
        ("AND R1,R2", vec![0x99]),
        ("OR R2,R0", vec![0xA2]),
        ("XOR R0,R1", vec![0xD4]),
        ("BITT R0,R1", vec![0xF1, 0x30]),
        ("BITS R0,R1;BITC (R2),R0", vec![0xF1, 0x50, 0xF0, 0x66]),
        ("RRC;ASR", vec![0x40, 0x3D]),
        ("LDSP 0xE0", vec![0xFB, 0xE0, 0x40]),
        // the key-edge enable bit taken away and given back by the main program: a key pressed while it was
        // still set stays latched across the write that clears it
        ("MICR off;NOP;MICR on", vec![0xFB, 0x3E, 0x1F, 0xF9, 0x02, 0xFB, 0x01, 0x5F, 0xF9]),
        // a regular stop in the main program: the harness presses continue six clock periods later
        ("STOP", vec![0x01]),
    ]
}

fn isrs() -> Vec<(&'static str, Vec<u8>)> {
    vec![
        ("RETI", vec![0x2C]),
        // PUSH R0 ; LD R0,(CNT) ; INC R0 ; ST (CNT),R0 ; POP R0 ; RETI
        ("counter", vec![0x10, 0xFF, CNT, 0x10, 0x44, 0xF0, 0x1F, CNT, 0x14, 0x2C]),
        // PUSH R0 ; PUSH R1 ; LD R0,7 ; LD R1,9 ; MUL R0,R1 ; CALL ISUB ; POP R1 ; POP R0 ; RETI ; ISUB: LD R0,(CNT) ; INC R0 ; ST (CNT),R0 ; RET
        ("mul+call", vec![0x10, 0x11, 0xFB, 0x07, 0x10, 0xFB, 0x09, 0x11, 0xB4, 0x28, 0x11, 0x15, 0x14, 0x2C, /*ISUB @0x11*/ 0x00]),
        // re-entrant: counts, then enables interrupts again while it is still running
        // PUSH R0 ; LD R0,(CNT) ; INC R0 ; ST (CNT),R0 ; EI ; NOP ; CLR R0 ; NOP ; POP R0 ; RETI
        ("reentrant", vec![0x10, 0xFF, CNT, 0x10, 0x44, 0xF0, 0x1F, CNT, 0x08, 0x02, 0x04, 0x02, 0x14, 0x2C]),
    ]
}

/// Initial register values of the main program: chosen so that the instructions of the bodies end
/// with every flag both set and clear somewhere (a flag clobbered by the entry sequence must show).
const INITS: [(u8, u8, u8); 4] = [(5, 3, 0x84), (0xF5, 0x23, 0x84), (0x80, 0x80, 0x90), (0x00, 0x00, 0x88)];

fn build(body: &[(&'static str, Vec<u8>)], isr: usize, enable_bit: bool, ei: bool, init: usize) -> Prog {
    let mut ram = [0u8; 240];
    // data area for pointer modes
    for i in 0x80..0xC0usize {
        ram[i] = 0x90u8.wrapping_add((i as u8) & 0x1F);
    }
    // vector
    sw::place(&mut ram, 0, &[0x20, MAIN - 2]);
    // ISR at 2
    let (_, mut code) = isrs()[isr].clone();
    if isr == 2 {
        // ISUB at 2 + 14 = 0x10 ; fix CALL target
        code.truncate(14);
        let isub = 2 + code.len() as u8;
        code[10] = isub;
        code.extend([0xFF, CNT, 0x10, 0x44, 0xF0, 0x1F, CNT, 0x17]);
    }
    assert!(2 + code.len() <= ISR_END as usize);
    sw::place(&mut ram, 2, &code);
    // main's subroutine
    sw::place(&mut ram, SUB, &[0x46, 0x17]);
    // main
    let mut main: Vec<u8> = vec![0xFB, 0xEF, 0x40]; // LDSP 0xEF
    let (i0, i1, i2) = INITS[init];
    main.extend([0xFB, i0, 0x10, 0xFB, i1, 0x11, 0xFB, i2, 0x12]); // LD R0,.. ; LD R1,.. ; LD R2,..
    if enable_bit {
        main.extend([0xFB, 0x01, 0x5F, 0xF9]); // BITS (0xF9),1
    } else if init == 2 {
        // every enable bit except the key-edge one
        main.extend([0xFB, 0x3E, 0x1F, 0xF9]); // ST-like: MOV (0xF9), 0x3E
    }
    if ei {
        main.push(0x08); // EI
    }
    let mut names = vec![];
    for (n, b) in body {
        main.extend(b);
        names.push(*n);
    }
    // result stores: ST (0xD1),R0 ; ST (0xD2),R1 ; ST (0xD3),R2
    main.extend([0xF0, 0x1F, 0xD1, 0xF1, 0x1F, 0xD2, 0xF2, 0x1F, 0xD3]);
    let end = MAIN + main.len() as u8;
    main.extend([0x20, 0xFE]); // END: JR END
    assert!(MAIN as usize + main.len() < 0x80);
    sw::place(&mut ram, MAIN, &main);
    Prog {
        name: format!("isr={} enable={} ei={} init={} body={:?}", isrs()[isr].0, enable_bit, ei, init, names),
        ram,
        end,
        isr,
        enable_bit,
        pre: 0,
    }
}

/// REF-ISA memory that logs the accesses of one instruction.
struct LogMem {
    inner: sw::BusMem,
    log: Vec<(u8, bool)>,
}

impl refmodel::isa::Mem for LogMem {
    fn read(&mut self, a: u8) -> u8 {
        self.log.push((a, false));
        self.inner.read(a)
    }
    fn write(&mut self, a: u8, v: u8) {
        self.log.push((a, true));
        self.inner.write(a, v)
    }
}

/// The property speaks about main programs that an interrupt *can* be transparent to: a main program
/// that overwrites code, the routine's counter cell, or that touches the stack area below its own SP
/// (where entry sequences and routines push) observes the interrupt by construction. Decided on the
/// uninterrupted run under REF-ISA, access by access; such programs are counted and left out.
fn well_formed(p: &Prog) -> Result<(), String> {
    use refmodel::isa::{step, Outcome};
    let case = Case { cpu: Cpu { r: [0, 0, 0], pc: 0, fr: 0, sp: 0 }, scratch: (0, 0), ram: p.ram, inputs: [0; 4], di1: 0 };
    let mut mem = LogMem { inner: case.refmem(), log: vec![] };
    let mut cpu = case.cpu;
    let mut latch = false;
    for _ in 0..2000 {
        if cpu.pc == p.end {
            return Ok(());
        }
        let before = cpu;
        mem.log.clear();
        let info = step(&mut cpu, &mut mem, &mut latch);
        if !matches!(info.outcome, Outcome::Done) && !(matches!(info.outcome, Outcome::Stop) && info.form == "STOP") {
            return Err(format!("halts at {:#04x}", before.pc));
        }
        let lo_sp = info.sp_values.iter().cloned().chain([before.sp, cpu.sp]).min().unwrap();
        for &(a, w) in &mem.log {
            if w && a < p.end.wrapping_add(2) {
                return Err(format!("instruction at {:#04x} writes into code at {:#04x}", before.pc, a));
            }
            if a == CNT {
                return Err(format!("instruction at {:#04x} touches the routine's counter cell", before.pc));
            }
            // SP == 0 only before the LDSP of the prologue
            if before.sp != 0 && (0xD4..=0xEF).contains(&a) && a < lo_sp {
                return Err(format!("instruction at {:#04x} touches {:#04x}, below its stack pointer {:#04x}", before.pc, a, lo_sp));
            }
        }
    }
    Err("does not reach END".into())
}

/// RAM images of the one-element-body programs (for C13's stimulus-at-every-phase sweep).
pub fn images_for_phase_sweep() -> Vec<(String, [u8; 240])> {
    let b = bodies();
    let mut v = vec![];
    for (i, x) in b.iter().enumerate() {
        for isr in 0..3 {
            let p = build(&[x.clone()], isr, true, true, (i + isr) % INITS.len());
            v.push((p.name.clone(), p.ram));
        }
    }
    v
}

fn machine(p: &Prog) -> Machine {
    let case = Case { cpu: Cpu { r: [0, 0, 0], pc: 0, fr: 0, sp: 0 }, scratch: (0, 0), ram: p.ram, inputs: [0; 4], di1: 0 };
    if p.pre == 0 {
        return case.machine();
    }
    // first life: the counter program with the enable bit and IE set, one key press taken
    let first = build(&[bodies()[0].clone()], 1, true, true, 0);
    let mut m = Case { cpu: case.cpu, scratch: (0, 0), ram: first.ram, inputs: [0; 4], di1: 0 }.machine();
    for e in 0..90 {
        if e == 60 {
            m.trigger_key_interrupt();
        }
        m.raw_mut().trigger_clock_edge();
    }
    if p.pre == 1 {
        m.cpu_reset();
    } else {
        m.master_reset();
    }
    m.raw_mut().bus_mut().memory_mut().copy_from_slice(&p.ram);
    m
}

#[derive(Clone, PartialEq, Eq, Hash, Debug)]
struct Snap {
    cpu: Cpu,
}

struct Trace0 {
    edges: u32,
    main_seq: Vec<Snap>,
    snaps: HashSet<Snap>,
    final_cpu: Cpu,
    final_ram: [u8; 240],
    final_out: (u8, u8),
    min_sp: u8,
    /// first edge after which IE is set (start of the pair window)
    ief_first: u32,
}

/// Deviation 0: the uninterrupted run, until the END loop has been seen `loops` times.
fn trace0(p: &Prog) -> Result<Trace0, String> {
    let mut m = machine(p);
    let mut main_seq = vec![];
    let mut snaps = HashSet::new();
    let mut was_done = false;
    let mut loops = 0;
    let mut edges = 0;
    let mut min_sp = 0xFFu8;
    let mut fin = None;
    let mut ief_first = 0;
    let mut stopped = 0;
    while edges < 6000 {
        m.raw_mut().trigger_clock_edge();
        edges += 1;
        if ief_first == 0 && m.registers().content()[4] & 0x08 != 0 {
            ief_first = edges;
        }
        if m.state() == State::Stopped {
            // the continue key, six clock periods after the stop
            stopped += 1;
            if stopped == 6 {
                stopped = 0;
                m.trigger_key_continue();
                // the resumption point is a boundary of the main program (the STOP itself has no
                // micro-step of its own that would make the fetch word "become" current again)
                let s = Snap { cpu: mach::cpu_of(&m) };
                snaps.insert(s.clone());
                main_seq.push(s);
            }
            continue;
        }
        if m.state() != State::Running {
            return Err(format!("uninterrupted run halted with {:?} at edge {}", m.state(), edges));
        }
        let done = m.is_instruction_done();
        if done && !was_done {
            let cpu = mach::cpu_of(&m);
            if cpu.sp != 0 {
                min_sp = min_sp.min(cpu.sp);
            }
            let s = Snap { cpu };
            snaps.insert(s.clone());
            main_seq.push(s);
            if cpu.pc == p.end {
                loops += 1;
                if loops == 1 {
                    fin = Some((cpu, *m.bus().memory(), (m.bus().output_fe(), m.bus().output_ff())));
                }
                if loops == 3 {
                    break;
                }
            }
        }
        was_done = done;
    }
    let (final_cpu, final_ram, final_out) = fin.ok_or("uninterrupted run never reached END")?;
    Ok(Trace0 { edges, main_seq, snaps, final_cpu, final_ram, final_out, min_sp, ief_first })
}

#[derive(Default, Debug)]
struct RunStats {
    entries: u32,
    normative: u32,
    unspecified: u32,
    frozen_pred: u32,
}

/// One interrupted run: triggers before the given edges (sorted, duplicates allowed).
fn interrupted(p: &Prog, t0: &Trace0, triggers: &[u32]) -> Result<RunStats, (String, String)> {
    let mut m = machine(p);
    let mut st = RunStats::default();
    let mut was_done = false;
    let mut latch = false; // model of the pending flip-flop
    let mut group_norm = false;
    let mut main_idx = 0usize;
    let mut min_sp = t0.min_sp;
    // stack slots the entry sequences and the routine legitimately wrote (below the SP at the entry)
    let mut dead = [false; 256];
    let mut prev_boundary: Option<Cpu> = None;
    let mut ti = 0;
    let horizon = (t0.edges + 1500).max(triggers.last().cloned().unwrap_or(0) + 1500);
    let mut quiescent = None;
    let mut resumed_at: Option<Cpu> = None;
    let mut stopped = 0;
    let mut edge = 0u32;
    while edge < horizon {
        while ti < triggers.len() && triggers[ti] == edge {
            ti += 1;
            let micr = m.bus().is_key_edge_int_enabled();
            let ief = m.registers().content()[4] & 0x08 != 0;
            m.trigger_key_interrupt();
            if micr {
                if !latch {
                    group_norm = ief;
                } else {
                    group_norm |= ief;
                }
                latch = true;
            }
        }
        let sampling = m.state() == State::Running
            && {
                let s = m.signals();
                s.mac1() && s.mac0() && s.na0() && !s.mac2()
            }
            && !m.verif_pending().3;
        m.raw_mut().trigger_clock_edge();
        edge += 1;
        if m.state() == State::Stopped {
            // the main program's STOP (or the same STOP seen again): continue six clock periods later
            stopped += 1;
            if stopped == 6 {
                stopped = 0;
                m.trigger_key_continue();
                let cpu = mach::cpu_of(&m);
                if !(cpu.pc >= 2 && cpu.pc < ISR_END) && main_idx < t0.main_seq.len() {
                    if t0.main_seq[main_idx].cpu != cpu {
                        return Err(("transparency/main-sequence-diverges".into(), format!("main-program boundary #{} (resumption after STOP): expected {:x?} observed {:x?}", main_idx, t0.main_seq[main_idx].cpu, cpu)));
                    }
                    main_idx += 1;
                    resumed_at = Some(cpu);
                }
            }
            continue;
        }
        if m.state() != State::Running {
            return Err(("transparency/halt".into(), format!("interrupted run halted with {:?} at edge {}", m.state(), edge)));
        }
        if sampling && latch {
            let ief_s = m.registers().content()[4] & 0x08 != 0;
            if group_norm && ief_s {
                st.normative += 1;
            } else {
                st.unspecified += 1;
            }
            if ief_s {
                st.frozen_pred += 1;
            }
            latch = false;
        }
        let done = m.is_instruction_done();
        if done && !was_done {
            let cpu = mach::cpu_of(&m);
            if cpu.sp != 0 {
                min_sp = min_sp.min(cpu.sp);
            }
            let _ = min_sp;
            if cpu.pc == 2 {
                // ---- interrupt entry ----
                st.entries += 1;
                if st.entries as usize > 64 + 2 * triggers.len() {
                    return Err(("entry/re-entered-endlessly".into(), format!("more than {} entries for {} triggers", 64 + 2 * triggers.len(), triggers.len())));
                }
                let ram = m.bus().memory();
                let ret = ram[cpu.sp as usize];
                let fr_pushed = ram[cpu.sp as usize + 1];
                if cpu.fr & 0x08 != 0 {
                    return Err(("entry/ie-not-cleared".into(), format!("IE still set inside the routine at entry (FR={:#04x})", cpu.fr)));
                }
                if fr_pushed & 0x08 == 0 {
                    return Err(("entry/pushed-fr-without-ie".into(), format!("pushed FR {:#04x} has IE clear although the entry requires IE", fr_pushed)));
                }
                for a in cpu.sp.saturating_sub(8)..cpu.sp.wrapping_add(2) {
                    dead[a as usize] = true;
                }
                let pre = Snap { cpu: Cpu { r: cpu.r, pc: ret, fr: fr_pushed, sp: cpu.sp.wrapping_add(2) } };
                // a nested entry (the routine had enabled interrupts again) interrupts the routine, not the main program
                let nested = ret >= 2 && ret < ISR_END;
                if !nested && !t0.snaps.contains(&pre) {
                    return Err((
                        "entry/not-at-a-boundary-of-the-main-program".into(),
                        format!("at entry the stack holds return address {:#04x} / FR {:#04x} with R0-R2 {:02x?} SP {:#04x}: no boundary of the uninterrupted run has this state (previous boundary {:x?})", ret, fr_pushed, cpu.r, pre.cpu.sp, prev_boundary),
                    ));
                }
            }
            let in_isr = cpu.pc >= 2 && cpu.pc < ISR_END;
            // the resumption point after a STOP was already counted; when a routine ran right there, the
            // fetch word becomes current (again) with the very same state after its RETI
            let again = !in_isr && resumed_at == Some(cpu);
            if !in_isr {
                resumed_at = None;
            }
            if !in_isr && !again {
                // main program boundary: must follow the uninterrupted sequence
                if main_idx < t0.main_seq.len() {
                    if t0.main_seq[main_idx].cpu != cpu {
                        return Err((
                            "transparency/main-sequence-diverges".into(),
                            format!("main-program boundary #{}: expected {:x?} observed {:x?}", main_idx, t0.main_seq[main_idx].cpu, cpu),
                        ));
                    }
                    main_idx += 1;
                }
                if cpu.pc == p.end && !latch && ti >= triggers.len() && quiescent.is_none() {
                    quiescent = Some(edge);
                }
            }
            if again && cpu.pc == p.end && !latch && ti >= triggers.len() && quiescent.is_none() {
                quiescent = Some(edge);
            }
            prev_boundary = Some(cpu);
            if let Some(q) = quiescent {
                if edge >= q + 20 && cpu.pc == p.end {
                    break;
                }
            }
        }
        was_done = done;
    }
    if quiescent.is_none() {
        return Err(("transparency/never-quiescent".into(), format!("the interrupted run did not come to rest in END within {} edges ({} entries)", horizon, st.entries)));
    }
    // ---- entry count ----
    if st.entries < st.normative || st.entries > st.normative + st.unspecified {
        return Err((
            if st.entries < st.normative { "entry/missed".into() } else { "entry/spurious-or-repeated".into() },
            format!("routine entered {} time(s); triggers with both enables set require exactly {} (+ at most {} from presses in unspecified windows)", st.entries, st.normative, st.unspecified),
        ));
    }
    // ---- transparency at quiescence ----
    let cpu = mach::cpu_of(&m);
    if cpu != t0.final_cpu {
        return Err(("transparency/final-registers".into(), format!("final registers expected {:x?} observed {:x?}", t0.final_cpu, cpu)));
    }
    if (m.bus().output_fe(), m.bus().output_ff()) != t0.final_out {
        return Err(("transparency/final-outputs".into(), "output registers differ from the uninterrupted run".into()));
    }
    let ram = m.bus().memory();
    for a in 0..240usize {
        let dead = dead[a];
        if a == CNT as usize {
            if p.isr > 0 && ram[a] as u32 != st.entries % 256 {
                return Err(("entry/counter-mismatch".into(), format!("ISR counter cell {} != observed entries {}", ram[a], st.entries)));
            }
            continue;
        }
        if !dead && ram[a] != t0.final_ram[a] {
            return Err(("transparency/final-ram".into(), format!("RAM[{:#04x}] expected {:#04x} observed {:#04x} (outside the dead stack area)", a, t0.final_ram[a], ram[a])));
        }
    }
    Ok(st)
}

fn line(p_idx: usize, p: &Prog, triggers: &[u32]) -> String {
    format!("int prog={} triggers={} name={}", p_idx, triggers.iter().map(|t| t.to_string()).collect::<Vec<_>>().join(","), p.name.replace(' ', "_"))
}

fn family(quick: bool) -> Vec<Prog> {
    let b = bodies();
    let mut v = vec![];
    let depth = if quick { 2 } else { 3 };
    let mut seqs: Vec<Vec<usize>> = vec![vec![]];
    let mut cur: Vec<Vec<usize>> = vec![vec![]];
    for _ in 0..depth {
        let mut next = vec![];
        for s in &cur {
            for i in 0..b.len() {
                let mut t = s.clone();
                t.push(i);
                next.push(t);
            }
        }
        seqs.extend(next.iter().cloned());
        cur = next;
    }
    for (si, s) in seqs.iter().enumerate() {
        let body: Vec<(&'static str, Vec<u8>)> = s.iter().map(|&i| b[i].clone()).collect();
        let size: usize = body.iter().map(|x| x.1.len()).sum();
        if size > 40 {
            continue;
        }
        for isr in 0..4 {
            // every ISR for bodies up to length 2 (the re-entrant one up to length 1); length 3 with the ISR rotated
            if !quick && s.len() == 3 && isr != si % 3 {
                continue;
            }
            if isr == 3 && s.len() > 1 {
                continue;
            }
            for init in 0..INITS.len() {
                // every init for bodies up to length 2 (both tiers); rotated for length 3
                if !quick && s.len() == 3 && init != (si + isr) % INITS.len() {
                    continue;
                }
                v.push(build(&body, isr, true, true, init));
            }
        }
    }
    // enable bit never set; set but EI absent
    for s in seqs.iter().filter(|s| s.len() == 1 && !b[s[0]].0.starts_with("MICR")) {
        let body: Vec<(&'static str, Vec<u8>)> = s.iter().map(|&i| b[i].clone()).collect();
        v.push(build(&body, 1, false, true, 1));
        v.push(build(&body, 1, false, true, 2));
        v.push(build(&body, 1, true, false, 1));
    }
    // second lives: the enable-bit-clear and the ordinary programs on a machine that was reset after a
    // first program had enabled (and taken) the key interrupt
    for s in seqs.iter().filter(|s| s.len() == 1 && !b[s[0]].0.starts_with("MICR")).step_by(if quick { 3 } else { 1 }) {
        let body: Vec<(&'static str, Vec<u8>)> = s.iter().map(|&i| b[i].clone()).collect();
        for pre in [1u8, 2] {
            for (isr, enable, ei, init) in [(1usize, false, true, 1usize), (1, false, true, 2), (1, true, true, 0), (2, true, false, 3)] {
                let mut p = build(&body, isr, enable, ei, init);
                p.pre = pre;
                p.name = format!("{} after-{}", p.name, if pre == 1 { "cpu-reset" } else { "master-reset" });
                v.push(p);
            }
        }
    }
    v
}

#[derive(Default)]
struct Out {
    runs: u64,
    edges: u64,
    entries: u64,
    normative: u64,
    unspecified: u64,
    frozen_agree: u64,
    by_count: BTreeMap<u32, u64>,
    bad: BTreeMap<String, Vec<(String, String)>>,
    programs: u64,
    ill_formed: u64,
    ill_sample: Vec<String>,
}

fn check_prog(pi: usize, p: &Prog, pairs: bool, out: &mut Out) {
    if let Err(why) = well_formed(p) {
        out.ill_formed += 1;
        if out.ill_sample.len() < 2 {
            out.ill_sample.push(format!("[{}] {}", p.name, why));
        }
        return;
    }
    out.programs += 1;
    let t0 = match mc::catch(|| trace0(p)) {
        Ok(Ok(t)) => t,
        Ok(Err(e)) => {
            out.bad.entry("machinery/bad-program".into()).or_default().push((line(pi, p, &[]), format!("[{}] {}", p.name, e)));
            return;
        }
        Err(pi2) => {
            out.bad.entry(format!("panic/{}", pi2.file())).or_default().push((line(pi, p, &[]), format!("panic at {}: {}", pi2.site(), pi2.msg)));
            return;
        }
    };
    let mut scheds: Vec<Vec<u32>> = vec![vec![]];
    for t in 0..=t0.edges {
        scheds.push(vec![t]);
    }
    if pairs {
        // every ordered pair (t1 <= t2) inside a 120-edge window that starts 30 edges before the body
        let w0 = t0.ief_first.saturating_sub(30);
        for t1 in w0..w0 + 120 {
            for t2 in t1..w0 + 120 {
                scheds.push(vec![t1, t2]);
            }
        }
    }
    // many presses in one run: 400 presses 53 edges apart, a burst of 40 presses 7 edges apart, and one
    // press per edge for 200 edges (the counter cell wraps at 256)
    if p.isr == 1 && p.enable_bit && p.name.matches(", ").count() == 0 {
        scheds.push((0..400).map(|k| 60 + 53 * k).collect());
        scheds.push((0..40).map(|k| 70 + 7 * k).collect());
        scheds.push((0..200).map(|k| 50 + k).collect());
    }
    for s in &scheds {
        out.runs += 1;
        if out.runs % 16 == 1 {
            mc::watch::progress(|| line(pi, p, s));
        }
        out.edges += t0.edges as u64;
        match mc::catch(|| interrupted(p, &t0, s)) {
            Ok(Ok(st)) => {
                out.entries += st.entries as u64;
                out.normative += st.normative as u64;
                out.unspecified += st.unspecified as u64;
                if st.frozen_pred == st.entries {
                    out.frozen_agree += 1;
                }
                *out.by_count.entry(st.entries).or_default() += 1;
                if s.is_empty() && st.entries != 0 {
                    out.bad.entry("entry/without-trigger".into()).or_default().push((line(pi, p, s), format!("[{}] routine entered without any key press", p.name)));
                }
                if !p.enable_bit && st.entries != 0 {
                    out.bad.entry("entry/enable-bit-clear".into()).or_default().push((line(pi, p, s), format!("[{}] routine entered although the key-edge enable bit was never set", p.name)));
                }
            }
            Ok(Err((k, w))) => {
                let e = out.bad.entry(k).or_default();
                if e.len() < 4 {
                    e.push((line(pi, p, s), format!("[{}] triggers before edges {:?}: {}", p.name, s, w)));
                }
            }
            Err(pi2) => {
                let e = out.bad.entry(format!("panic/{}", pi2.file())).or_default();
                if e.len() < 4 {
                    e.push((line(pi, p, s), format!("panic at {}: {}", pi2.site(), pi2.msg)));
                }
            }
        }
    }
}

pub fn run() {
    let mut ctx = Ctx::from_args("model_checking");
    let quick = ctx.quick();
    if let Some(f) = ctx.replay_file.clone() {
        let text = std::fs::read_to_string(&f).expect("replay file");
        let l = text.lines().next().unwrap_or("").to_string();
        let kv = mc::kv(&l);
        // the program index refers to the family of the tier the violation was found in; try both
        let trig: Vec<u32> = kv["triggers"].split(',').filter(|s| !s.is_empty()).map(|s| s.parse().unwrap()).collect();
        let mut found = false;
        for q in [true, false] {
            let fam = family(q);
            let pi = mc::num(&kv["prog"]) as usize;
            if pi < fam.len() && fam[pi].name.replace(' ', "_") == kv["name"] {
                found = true;
                let p = &fam[pi];
                if let Err(why) = well_formed(p) {
                    println!("program is outside the family (not checked): {}", why);
                    break;
                }
                let t0 = trace0(p).expect("program runs");
                let r = interrupted(p, &t0, &trig);
                println!("{} triggers {:?}: {:?}", p.name, trig, r);
                if let Err((k, w)) = r {
                    ctx.violation(k, w, l.clone());
                }
                break;
            }
        }
        if !found {
            ctx.machinery_error("replay line does not match a program of the family");
        }
        ctx.finish();
    }
    let fam = family(quick);
    let outs = mc::par_ranges(fam.len(), fam.len(), |r| {
        let mut out = Out::default();
        for i in r {
            // pairs: on every 4th program in quick, on every program in thorough
            let pairs = if quick { i % 4 == 0 || fam[i].isr == 3 } else { true };
            check_prog(i, &fam[i], pairs, &mut out);
        }
        out
    });
    let mut all = Out::default();
    for o in outs {
        all.runs += o.runs;
        all.edges += o.edges;
        all.entries += o.entries;
        all.normative += o.normative;
        all.unspecified += o.unspecified;
        all.frozen_agree += o.frozen_agree;
        all.programs += o.programs;
        all.ill_formed += o.ill_formed;
        for x in o.ill_sample {
            if all.ill_sample.len() < 6 {
                all.ill_sample.push(x);
            }
        }
        for (k, v) in o.by_count {
            *all.by_count.entry(k).or_default() += v;
        }
        for (k, v) in o.bad {
            let e = all.bad.entry(k).or_default();
            for c in v {
                if e.len() < 4 {
                    e.push(c);
                }
            }
        }
    }
    for (k, cases) in &all.bad {
        for (l, w) in cases.iter().take(3) {
            if k.starts_with("machinery/") {
                ctx.machinery_error(w.clone());
            } else {
                ctx.violation(k.clone(), w.clone(), l.clone());
            }
        }
    }
    ctx.set("states", all.edges);
    ctx.set("transitions", all.edges);
    ctx.set("traces_validated_against_impl", all.runs);
    ctx.set("evaluations", all.runs);
    ctx.set("distinct_nontrivial", all.runs - all.by_count.get(&0).cloned().unwrap_or(0));
    ctx.set("rule", "schedule = (program, multiset of trigger edges); deviation 0: no trigger; 1: one trigger before every clock edge 0..T of the run; 2: every ordered pair of trigger edges in a 120-edge window; every schedule is executed edge by edge on the real machine and compared with the uninterrupted twin; distinct_nontrivial = schedules in which the routine was entered at least once");
    ctx.set("exhaustive", true);
    ctx.set("bounds", format!("{} programs (prologue + every body sequence of length <= {} over 27 instruction kinds (incl. a body that clears and re-sets the key-edge enable bit) x ISRs {{RETI, counter, MUL+CALL, re-entrant}}, + enable-bit-clear and EI-less variants, second lives after a cpu/master reset, a STOP in the main program followed by continue; programs that are not transparent by construction left out); deviation bound 2; + runs with 400 / 40 / 200 presses for the counter routine (pairs on {} of the programs)", fam.len(), if quick { 2 } else { 3 }, if quick { "1/4" } else { "all" }));
    ctx.set("schedules", all.runs);
    ctx.set("programs_checked", all.programs);
    ctx.set("programs_left_out_not_transparent_by_construction", all.ill_formed);
    ctx.set("programs_left_out_examples", Json::Arr(all.ill_sample.iter().map(|s| Json::Str(s.clone())).collect()));
    ctx.set("routine_entries_observed", all.entries);
    ctx.set("entries_required_by_statement", all.normative);
    ctx.set("presses_in_unspecified_windows", all.unspecified);
    ctx.set("schedules_agreeing_with_frozen_latch_model", all.frozen_agree);
    let mut bc = Json::obj();
    for (k, v) in &all.by_count {
        bc.set(&format!("{}_entries", k), *v);
    }
    ctx.set("schedules_by_entry_count", bc);
    ctx.set("distinct_outcomes", all.by_count.len());
    for (i, p) in fam.iter().enumerate().step_by((fam.len() / 5).max(1)).take(5) {
        ctx.sample(format!("{} :: code {}", line(i, p, &[17]), mc::hex(&p.ram[0..0x60])));
    }
    ctx.set("determinism_selftest", {
        let t = trace0(&fam[0]).ok();
        let a = t.as_ref().map(|t| format!("{:?}", interrupted(&fam[0], t, &[40])));
        let b = t.as_ref().map(|t| format!("{:?}", interrupted(&fam[0], t, &[40])));
        a == b && a.is_some()
    });
    ctx.assume("a key press counts as 'while enabled' when the MICR key-edge bit and IE are set at the press and IE is still set when the press is sampled at the end of the instruction in flight; presses in other windows (IE clear at the press or cleared before sampling, press while the routine runs) may or may not enter (0 or 1), everything else is still checked");
    ctx.assume("main programs that (decided access by access on the uninterrupted run under REF-ISA) write into code, touch the routine's counter cell or touch the stack area below their own stack pointer are not interrupt-transparent by construction and are left out (counted in programs_left_out_not_transparent_by_construction)");
    ctx.assume("sampling edges are recognised from the public Signals of the current control word and the memory-wait latch (hook accessor)");
    ctx.finish();
}
