//! Drivers for C17: the binary crate's own modules are mounted from /repo's working tree.
#![allow(dead_code, unused_imports, clippy::all)]

#[path = "/repo/emulator-2a/src/args.rs"]
mod args;
#[path = "/repo/emulator-2a/src/error.rs"]
mod error;
#[path = "/repo/emulator-2a/src/helpers/mod.rs"]
mod helpers;
#[path = "/repo/emulator-2a/src/runner/mod.rs"]
mod runner;
#[path = "/repo/emulator-2a/src/tui/mod.rs"]
mod tui;

mod c17;

fn main() {
    mc::install_silent_hook();
    let id = std::env::args().nth(1).unwrap_or_default();
    let r = std::panic::catch_unwind(|| match id.as_str() {
        "C17" => c17::run(),
        "C06-LISTING" => c17::listing_stage(&std::env::args().nth(2).unwrap_or_default()),
        _ => {
            eprintln!("MACHINERY-ERROR unknown property id '{}'", id);
            std::process::exit(2)
        }
    });
    if r.is_err() {
        if mc::panics::escaped_subject_panic().is_some() {
            mc::panics::report_escaped_subject_panic(&id);
        }
        println!("MACHINERY-ERROR property={} the harness itself panicked (see stderr)", id);
        std::process::exit(2);
    }
}
