//! C17 — the interactive session survives any key input; commands act as documented.
//! The real `Tui` (event dispatch, line editor, command parser, widgets) is driven headlessly:
//! keys go through the injection queue into `handle_event`, `Interface` renders into a Buffer.
use crate::args::InteractiveArgs;
use crate::tui::events::verif as inject;
use crate::tui::interface::Interface;
use crate::tui::{Part, Tui};
use ::tui::buffer::Buffer;
use ::tui::layout::Rect;
use ::tui::widgets::StatefulWidget;
use crossterm::event::{KeyCode, KeyEvent, KeyModifiers};
use emulator_2a_lib::compiler::Translator;
use emulator_2a_lib::machine::{Machine, MachineConfig, State, StepMode};
use emulator_2a_lib::parser::AsmParser;
use mc::{Ctx, Json};
use refmodel::cmd::{self, Cmd};
use refmodel::edit::{Editor, Key};
use std::collections::{BTreeMap, HashSet};

#[derive(Debug, Clone, Copy, PartialEq, Eq, Hash)]
pub enum K {
    E(Key),
    Ctrl(char),
    /// an editor key with modifiers other than "exactly CONTROL" held (bit 0 SHIFT, 1 ALT, 2 CONTROL):
    /// the documentation knows CTRL+letter bindings only, everything else is the plain key
    M(u8, Key),
    /// a key the interface has no use for (0 Esc, 1 F1, 2 PageUp, 3 PageDown, 4 Insert, 5 Null, 6 F12): ignored
    Other(u8),
}

fn key_event(k: K) -> KeyEvent {
    let none = KeyModifiers::empty();
    match k {
        K::M(bits, key) => {
            let mut m = KeyModifiers::empty();
            if bits & 1 != 0 {
                m |= KeyModifiers::SHIFT;
            }
            if bits & 2 != 0 {
                m |= KeyModifiers::ALT;
            }
            if bits & 4 != 0 {
                m |= KeyModifiers::CONTROL;
            }
            KeyEvent { code: key_event(K::E(key)).code, modifiers: m }
        }
        K::Other(i) => KeyEvent {
            code: match i {
                0 => KeyCode::Esc,
                1 => KeyCode::F(1),
                2 => KeyCode::PageUp,
                3 => KeyCode::PageDown,
                4 => KeyCode::Insert,
                5 => KeyCode::Null,
                _ => KeyCode::F(12),
            },
            modifiers: none,
        },
        K::Ctrl(c) => KeyEvent { code: KeyCode::Char(c), modifiers: KeyModifiers::CONTROL },
        K::E(Key::Char(c)) => KeyEvent { code: KeyCode::Char(c), modifiers: none },
        K::E(Key::Enter) => KeyEvent { code: KeyCode::Enter, modifiers: none },
        K::E(Key::Tab) => KeyEvent { code: KeyCode::Tab, modifiers: none },
        K::E(Key::BackTab) => KeyEvent { code: KeyCode::BackTab, modifiers: none },
        K::E(Key::Left) => KeyEvent { code: KeyCode::Left, modifiers: none },
        K::E(Key::Right) => KeyEvent { code: KeyCode::Right, modifiers: none },
        K::E(Key::Up) => KeyEvent { code: KeyCode::Up, modifiers: none },
        K::E(Key::Down) => KeyEvent { code: KeyCode::Down, modifiers: none },
        K::E(Key::Home) => KeyEvent { code: KeyCode::Home, modifiers: none },
        K::E(Key::End) => KeyEvent { code: KeyCode::End, modifiers: none },
        K::E(Key::Backspace) => KeyEvent { code: KeyCode::Backspace, modifiers: none },
        K::E(Key::Delete) => KeyEvent { code: KeyCode::Delete, modifiers: none },
    }
}

fn key_name(k: &K) -> String {
    match k {
        K::Ctrl(c) => format!("^{}", c),
        K::E(Key::Char(c)) => format!("'{}", c.escape_default()),
        K::E(o) => format!("{:?}", o),
        K::M(bits, key) => format!("M{}+{}", bits, key_name(&K::E(*key))),
        K::Other(i) => format!("Other{}", i),
    }
}

fn keys_line(keys: &[K], w: u16, h: u16) -> String {
    format!("keys size={}x{} seq={}", w, h, keys.iter().map(key_name).collect::<Vec<_>>().join("~"))
}

fn parse_keys(s: &str) -> Vec<K> {
    s.split('~')
        .filter(|t| !t.is_empty())
        .map(|t| {
            if let Some(c) = t.strip_prefix('^') {
                return K::Ctrl(c.chars().next().unwrap());
            }
            if let Some(rest) = t.strip_prefix("Other") {
                return K::Other(rest.parse().unwrap_or(0));
            }
            if t.starts_with('M') && t.contains('+') && t[1..2].chars().all(|c| c.is_ascii_digit()) {
                let (b, rest) = t[1..].split_once('+').unwrap();
                if let Some(K::E(key)) = parse_keys(rest).first().cloned() {
                    return K::M(b.parse().unwrap_or(1), key);
                }
            }
            if let Some(c) = t.strip_prefix('\'') {
                let un: String = if c.starts_with("\\u{") {
                    let hex = c.trim_start_matches("\\u{").trim_end_matches('}');
                    char::from_u32(u32::from_str_radix(hex, 16).unwrap()).unwrap().to_string()
                } else if c == "\\t" {
                    "\t".into()
                } else if c == "\\\\" {
                    "\\".into()
                } else if c == "\\'" {
                    "'".into()
                } else {
                    c.to_string()
                };
                return K::E(Key::Char(un.chars().next().unwrap()));
            }
            K::E(match t {
                "Enter" => Key::Enter,
                "Tab" => Key::Tab,
                "BackTab" => Key::BackTab,
                "Left" => Key::Left,
                "Right" => Key::Right,
                "Up" => Key::Up,
                "Down" => Key::Down,
                "Home" => Key::Home,
                "End" => Key::End,
                "Backspace" => Key::Backspace,
                _ => Key::Delete,
            })
        })
        .collect()
}

/// The session under test + the reference session.
pub struct Session {
    pub tui: Tui,
    pub ed: Editor,
    pub note: bool,
    pub twin: Machine,
    pub part_memory: bool,
    pub autorun: bool,
    pub quit: bool,
}

fn compile_file(path: &str) -> Result<emulator_2a_lib::compiler::ByteCode, ()> {
    let src = std::fs::read_to_string(path).map_err(|_| ())?;
    let asm = AsmParser::parse(&src).map_err(|_| ())?;
    Ok(Translator::compile(&asm))
}

impl Session {
    pub fn new() -> Session {
        inject::activate();
        let tui = Tui::new(&InteractiveArgs::default()).expect("Tui::new without a program");
        Session { tui, ed: Editor::default(), note: false, twin: Machine::new(MachineConfig::default()), part_memory: false, autorun: false, quit: false }
    }

    /// A session started the way `2a-emulator interactive [PROGRAM] [--fc ..]` starts it. The twin is
    /// built from the library calls the documentation names for those arguments.
    pub fn new_with(program: Option<&str>, init: crate::args::InitialMachineConfiguration) -> Result<Session, String> {
        inject::activate();
        let mut twin = Machine::new(MachineConfig::default());
        if let Some(p) = program {
            if let Ok(bc) = compile_file(p) {
                twin.load(bc);
            }
        }
        twin.set_input_fc(init.fc);
        twin.set_input_fd(init.fd);
        twin.set_input_fe(init.fe);
        twin.set_input_ff(init.ff);
        twin.set_digital_input1(init.di1);
        twin.set_temp(init.temp);
        twin.set_jumper1(init.j1);
        twin.set_jumper2(init.j2);
        twin.set_analog_input1(init.ai1);
        twin.set_analog_input2(init.ai2);
        twin.set_universal_input_output1(init.uio1);
        twin.set_universal_input_output2(init.uio2);
        twin.set_universal_input_output3(init.uio3);
        let args = InteractiveArgs { program: program.map(std::path::PathBuf::from), init };
        match Tui::new(&args) {
            Ok(tui) => Ok(Session { tui, ed: Editor::default(), note: false, twin, part_memory: false, autorun: false, quit: false }),
            Err(e) => Err(format!("{}", e)),
        }
    }

    /// Feed one key through the real event dispatch and through the reference; compare.
    pub fn press(&mut self, k: K) -> Result<(), (String, String)> {
        inject::push(key_event(k));
        let quit = self.tui.verif_step();
        // ---------------- reference ----------------
        let mut exp_quit = false;
        let mut tab = false;
        // what the reference sees
        let raw = k;
        let k = match k {
            // exactly CONTROL: the CTRL+letter bindings; CTRL + a non-letter key is not bound to anything
            K::M(4, Key::Char(c)) => K::Ctrl(c),
            K::M(4, _) => K::Other(0),
            K::M(_, key) => K::E(key),
            other => other,
        };
        let _ = raw;
        if self.note {
            // any key only dismisses the notification
            self.note = false;
        } else {
            match k {
                K::Ctrl('c') => exp_quit = true,
                K::Ctrl('a') => self.autorun = !self.autorun,
                K::Ctrl('w') => {
                    let n = if self.twin.step_mode() == StepMode::Real { StepMode::Assembly } else { StepMode::Real };
                    self.twin.set_step_mode(n)
                }
                K::Ctrl('e') => self.twin.trigger_key_interrupt(),
                K::Ctrl('r') => self.twin.cpu_reset(),
                K::Ctrl('l') => self.twin.trigger_key_continue(),
                K::Ctrl(_) => {}
                K::Other(_) => {}
                K::M(..) => unreachable!(),
                K::E(Key::Enter) => {
                    if self.ed.input.is_empty() {
                        self.twin.trigger_key_clock();
                    } else {
                        let line = self.ed.submit().unwrap();
                        match cmd::parse(&line) {
                            None => self.note = true,
                            Some(c) => match c {
                                Cmd::Load(p) => match compile_file(&p) {
                                    Ok(bc) => self.twin.load(bc),
                                    Err(()) => self.note = true,
                                },
                                Cmd::SetInput(0, v) => self.twin.set_input_fc(v),
                                Cmd::SetInput(1, v) => self.twin.set_input_fd(v),
                                Cmd::SetInput(2, v) => self.twin.set_input_fe(v),
                                Cmd::SetInput(_, v) => self.twin.set_input_ff(v),
                                Cmd::Irg(v) => self.twin.set_digital_input1(v),
                                Cmd::Temp(v) => self.twin.set_temp(v),
                                Cmd::I1(v) => self.twin.set_analog_input1(v),
                                Cmd::I2(v) => self.twin.set_analog_input2(v),
                                Cmd::J1(v) => self.twin.set_jumper1(v),
                                Cmd::J2(v) => self.twin.set_jumper2(v),
                                Cmd::Uio(0, v) => self.twin.set_universal_input_output1(v),
                                Cmd::Uio(1, v) => self.twin.set_universal_input_output2(v),
                                Cmd::Uio(_, v) => self.twin.set_universal_input_output3(v),
                                Cmd::ShowRegister => self.part_memory = false,
                                Cmd::ShowMemory => self.part_memory = true,
                                Cmd::Next(n) => {
                                    for _ in 0..n.min(100_000) {
                                        self.twin.trigger_key_clock()
                                    }
                                }
                                Cmd::Quit => exp_quit = true,
                                Cmd::FloatUnspecified => {
                                    // either outcome is acceptable: adopt what happened
                                    self.note = self.tui.verif_notification().is_some();
                                    self.twin = self.tui.machine().machine.clone();
                                }
                            },
                        }
                    }
                }
                K::E(Key::Tab) | K::E(Key::BackTab) => tab = true,
                K::E(e) => self.ed.key(e),
            }
        }
        // ---------------- comparison ----------------
        let inp = self.tui.verif_input();
        let (cur, cursor) = (inp.current().clone(), inp.verif_cursor());
        if cursor > cur.len() {
            return Err(("editor/cursor-outside-text".into(), format!("cursor {} beyond the {} characters of the input", cursor, cur.len())));
        }
        if let Some(i) = inp.verif_history_index() {
            if i >= inp.verif_history().len() {
                return Err(("editor/history-index-out-of-range".into(), format!("history index {} with {} entries", i, inp.verif_history().len())));
            }
        }
        if let Some((comps, idx)) = inp.verif_completions() {
            if *idx >= comps.len() {
                return Err(("editor/completion-index-out-of-range".into(), format!("completion index {} with {} entries", idx, comps.len())));
            }
        }
        if tab {
            // completion is not modelled: adopt its result
            self.ed.input = cur.clone();
            self.ed.cursor = cursor;
        }
        if cur != self.ed.input || cursor != self.ed.cursor {
            return Err(("editor/text-or-cursor".into(), format!("after {}: input {:?} cursor {}, expected {:?} cursor {}", key_name(&k), cur.iter().collect::<String>(), cursor, self.ed.input.iter().collect::<String>(), self.ed.cursor)));
        }
        if inp.verif_history() != self.ed.history.as_slice() || inp.verif_history_index() != self.ed.hidx {
            return Err(("editor/history".into(), format!("after {}: history {:?} index {:?}, expected {:?} index {:?}", key_name(&k), inp.verif_history(), inp.verif_history_index(), self.ed.history, self.ed.hidx)));
        }
        let note_now = self.tui.verif_notification().is_some();
        if note_now != self.note {
            let last = self.ed.history.last().cloned().unwrap_or_default();
            return Err((
                if note_now { "command/rejected-a-documented-command".into() } else { "command/executed-an-undocumented-line".into() },
                format!("after {} (last line {:?}): notification shown = {}, expected {}", key_name(&k), last, note_now, self.note),
            ));
        }
        if quit != exp_quit {
            return Err(("command/quit".into(), format!("after {}: quit = {}, expected {}", key_name(&k), quit, exp_quit)));
        }
        let ms = self.tui.machine();
        if ms.machine != self.twin {
            let last = self.ed.history.last().cloned().unwrap_or_default();
            let what = if ms.machine.bus() != self.twin.bus() { "bus/board/inputs" } else if ms.machine.step_mode() != self.twin.step_mode() { "step mode" } else { "cpu" };
            return Err((
                "command/effect-on-machine".into(),
                format!("after {} (last line {:?}): the machine differs ({}) from one driven by the library call of the same name; inputs {:02x?} vs {:02x?}", key_name(&k), last, what, (0xFC..=0xFFu8).map(|a| ms.machine.bus().read(a)).collect::<Vec<_>>(), (0xFC..=0xFFu8).map(|a| self.twin.bus().read(a)).collect::<Vec<_>>()),
            ));
        }
        if (ms.part == Part::Memory) != self.part_memory {
            return Err(("command/show".into(), format!("shown part is {:?}, expected memory = {}", ms.part, self.part_memory)));
        }
        if ms.auto_run_mode != self.autorun {
            return Err(("keys/autorun".into(), format!("autorun is {}, expected {}", ms.auto_run_mode, self.autorun)));
        }
        self.quit = quit;
        Ok(())
    }

    pub fn render(&mut self, w: u16, h: u16) -> u64 {
        // the real loop draws right after `maintain()` (which moves the listing to the current line, ages
        // the highlights, ...): with the injection queue empty, verif_step() is exactly that
        let _ = self.tui.verif_step();
        let area = Rect::new(0, 0, w, h);
        let mut buf = Buffer::empty(area);
        Interface.render(area, &mut buf, &mut self.tui);
        // digest of the drawn symbols (anti-vacuity statistic)
        let mut d = 0xcbf29ce484222325u64;
        for c in buf.content.iter() {
            for b in c.symbol.bytes() {
                d = (d ^ b as u64).wrapping_mul(0x100000001b3);
            }
        }
        d
    }

    pub fn state_key(&self) -> u64 {
        let inp = self.tui.verif_input();
        let s = format!("{:?}|{}|{:?}|{:?}|{:?}|{:?}", inp.current(), inp.verif_cursor(), inp.verif_history(), inp.verif_history_index(), inp.verif_completions(), self.tui.verif_notification());
        mc::fnv(s.as_bytes())
    }
}

/// Replay a key sequence on a fresh session; panics are caught by the caller.
fn replay(keys: &[K]) -> Result<Session, (String, String)> {
    mc::watch::progress(|| keys_line(keys, 76, 28));
    let mut s = Session::new();
    for k in keys {
        s.press(*k)?;
        if s.quit {
            break;
        }
    }
    Ok(s)
}

type Bad = BTreeMap<String, (u64, Vec<(String, String)>)>;

fn note(bad: &mut Bad, key: String, line: String, what: String) {
    let e = bad.entry(key).or_default();
    e.0 += 1;
    if e.1.len() < 3 || e.1.iter().any(|c| c.0.len() > line.len()) {
        e.1.push((line, what));
        e.1.sort_by_key(|c| c.0.len());
        e.1.truncate(3);
    }
}

fn panic_key(p: &mc::PanicInfo) -> String {
    let cls = if p.msg.contains("char boundary") {
        "byte-slice-of-char-indexed-text"
    } else if p.msg.contains("overflow") {
        "arithmetic-overflow"
    } else if p.msg.contains("out of range") || p.msg.contains("out of bounds") {
        "index-out-of-range"
    } else {
        "other"
    };
    format!("panic/{}/{}", p.file(), cls)
}

fn editor_alphabet() -> Vec<K> {
    let mut v: Vec<K> = "FCl set=1é語".chars().map(|c| K::E(Key::Char(c))).collect();
    v.dedup();
    for k in [Key::Enter, Key::Tab, Key::BackTab, Key::Left, Key::Right, Key::Up, Key::Down, Key::Home, Key::End, Key::Backspace, Key::Delete] {
        v.push(K::E(k));
    }
    v
}

/// Editor BFS by replay: returns (states, transitions, distinct render digests).
fn editor_bfs(depth: usize, bad: &mut Bad) -> (u64, u64, u64, Vec<Vec<K>>) {
    let alpha = editor_alphabet();
    // No deduplication: the session has state that is not observable through the accessors (and a
    // change could add more), so two key sequences that reach the same visible editor state are both
    // followed. `seen` only counts distinct visible states for the statistics.
    let mut seen: HashSet<u64> = HashSet::new();
    let mut frontier: Vec<Vec<K>> = vec![vec![]];
    let mut states = 1u64;
    let mut transitions = 0u64;
    let mut all_states: Vec<Vec<K>> = vec![vec![]];
    let mut digests: HashSet<u64> = HashSet::new();
    for _ in 0..depth {
        let res = mc::par_map(&frontier, |prefix| {
            let mut out = vec![];
            for k in &alpha {
                let mut seq = prefix.clone();
                seq.push(*k);
                let r = mc::catch(|| {
                    let s = replay(&seq);
                    match s {
                        Ok(mut s) => {
                            let key = s.state_key();
                            let d1 = s.render(76, 28);
                            let d2 = s.render(120, 40);
                            Ok((key, d1 ^ d2.rotate_left(17)))
                        }
                        Err(e) => Err(e),
                    }
                });
                out.push((seq, r));
            }
            out
        });
        let mut next = vec![];
        for group in res {
            for (seq, r) in group {
                transitions += 1;
                match r {
                    Ok(Ok((key, dg))) => {
                        digests.insert(dg);
                        seen.insert(key);
                        next.push(seq);
                    }
                    Ok(Err((k, w))) => note(bad, k, keys_line(&seq, 76, 28), w),
                    Err(p) => note(bad, panic_key(&p), keys_line(&seq, 76, 28), format!("panic at {}: {}", p.site(), p.msg)),
                }
            }
        }
        states = seen.len() as u64 + 1;
        all_states.extend(next.iter().cloned());
        frontier = next;
    }
    (states, transitions, digests.len() as u64, all_states)
}

fn typed(line: &str) -> Vec<K> {
    let mut v: Vec<K> = line.chars().map(|c| K::E(Key::Char(c))).collect();
    v.push(K::E(Key::Enter));
    v
}

/// The command-line family.
fn command_lines(full: bool) -> Vec<String> {
    let mut out: Vec<String> = vec![];
    let u8_vals = ["0", "7", "255", "256", "300", "0xFF", "0x100", "0XfF", "0xff", "0x0FF", "0b11111111", "0b100000000", "0B101", "-1", "1.5", "007", "0x", "0b", "0b2", "0xG", "", "+5", "5 5", "é"];
    let f_vals = ["0", "5.0", "7", "1.5", ".5", "5.", "-1", "+2", "1e1", "1e40", "1E-3", "1e", "nan", "inf", "NaN", "abc", "", "1,5", "2.5V", "0x10", "1.5.2"];
    let seps = [" = ", "=", " =", "= ", "\t=\t", "  =  ", " ", ""];
    for reg in ["FC", "FD", "FE", "FF", "fc", "Fe", "fF", "FG", "F"] {
        for pre in ["", "set ", "SET ", "set\t", "set", "unset "] {
            for v in u8_vals {
                out.push(format!("{}{} = {}", pre, reg, v));
            }
            if full || reg == "FC" {
                for s in seps {
                    out.push(format!("{}{}{}17", pre, reg, s));
                }
            }
        }
    }
    for kw in ["IRG", "irg", "Irg", "IR"] {
        for v in u8_vals {
            out.push(format!("set {} = {}", kw, v));
        }
        out.push(format!("{} = 5", kw));
        out.push(format!("unset {} = 5", kw));
    }
    for kw in ["TEMP", "temp", "I1", "i2", "I2", "I3", "TEMPERATURE"] {
        for v in f_vals {
            out.push(format!("set {} = {}", kw, v));
            out.push(format!("set {}={}", kw, v));
        }
        out.push(format!("{} = 1", kw));
    }
    for w in ["set", "unset", "SET", "Unset", "reset", ""] {
        for t in ["J1", "J2", "j1", "J3", "UIO1", "UIO2", "UIO3", "uio3", "UIO4", "UIO", "UIO12", "J1 J2", "J1 = 1", ""] {
            out.push(format!("{} {}", w, t));
            out.push(format!("{}{}", w, t));
            out.push(format!("{}\t{} ", w, t));
        }
    }
    for p in ["register", "memory", "REGISTER", "Memory", "registers", "mem", "", "register memory"] {
        out.push(format!("show {}", p));
        out.push(format!("SHOW\t{}", p));
        out.push(format!("show{}", p));
    }
    for n in ["", " 1", " 0", " 5", " 007", "5", " -1", " 1.5", " x", " 3 4", "  12  ", " 99999999999999999999999"] {
        out.push(format!("next{}", n));
        out.push(format!("NEXT{}", n));
    }
    for q in ["quit", "exit", "QUIT", "Exit", "quit ", " quit", "quit now", "quits", "q", "exit()", "qui", "quit\t"] {
        out.push(q.to_string());
    }
    for l in ["load ok.asm", "load bad.asm", "load missing.asm", "load", "load ", "load  ok.asm", "LOAD ok.asm", "load ok.asm ", "loadok.asm", "load\tok.asm", "load é.asm", "load ./ok.asm", "load with space.asm", "load  with space.asm", "load with  space.asm", "load sub/inner.asm", "load sub", "load ../ok.asm", "load ok.asm ok.asm"] {
        out.push(l.to_string());
    }
    for junk in ["", " ", "\t", "help", "?", "FC", "=", "= 5", "set", "set ", "unset", "é", "語 = 1", "FC = 1; FD = 2", "FC = 1 FD = 2"] {
        out.push(junk.to_string());
    }
    // trailing garbage on otherwise valid commands
    for base in ["FC = 1", "set IRG = 2", "set TEMP = 1.0", "set J1", "unset UIO2", "show memory", "next 2", "quit"] {
        for g in [" x", "x", " 1", ";", " ;", "  ", "\t", " é"] {
            out.push(format!("{}{}", base, g));
        }
    }
    out.sort();
    out.dedup();
    out
}

fn short_lines(len: usize) -> Vec<String> {
    const A: [char; 16] = ['f', 'C', 's', 'e', 't', 'n', 'x', 'q', 'u', 'i', ' ', '=', '0', '1', 'x', 'é'];
    let mut out = vec![];
    let mut cur = vec![String::new()];
    for _ in 0..len {
        let mut next = vec![];
        for s in &cur {
            for a in A {
                let mut t = s.clone();
                t.push(a);
                next.push(t);
            }
        }
        out.extend(next.iter().cloned());
        cur = next;
    }
    out.sort();
    out.dedup();
    out
}

/// Long inputs (beyond the width of the input widget) with the cursor at every interesting place.
fn long_input_cases() -> Vec<(Vec<K>, Vec<(u16, u16)>)> {
    let mut v = vec![];
    let fills: [&dyn Fn(usize) -> char; 4] = [&|_| 'a', &|i| if i % 5 == 4 { 'é' } else { 'b' }, &|_| '語', &|i| if i == 0 { 'é' } else { 'c' }];
    for len in [30usize, 35, 36, 37, 38, 39, 40, 41, 44, 60, 100, 215, 300] {
        for (fi, f) in fills.iter().enumerate() {
            for back in [0usize, 1, 2, 4, 5, 6, 7, len / 2, len.saturating_sub(6), len.saturating_sub(5), len.saturating_sub(1), len] {
                if back > len {
                    continue;
                }
                let mut keys: Vec<K> = (0..len).map(|i| K::E(Key::Char(f(i)))).collect();
                for _ in 0..back {
                    keys.push(K::E(Key::Left));
                }
                let sizes: Vec<(u16, u16)> = if fi < 2 { vec![(76, 28), (77, 28), (80, 30), (100, 28), (250, 100)] } else { vec![(76, 28), (90, 28)] };
                v.push((keys, sizes));
            }
        }
    }
    // very long lines, submitted: the answer is a notification that quotes the line (or the parser's error
    // for a file with a very long bad line); it has to be drawn at every size
    let all_sizes: Vec<(u16, u16)> = vec![(76, 28), (77, 29), (80, 30), (120, 40), (250, 100), (76, 100), (250, 28), (10, 5), (1, 1)];
    for len in [500usize, 1100, 2500, 10_000, 60_000] {
        for fi in 0..3usize {
            let mut keys: Vec<K> = (0..len).map(|i| K::E(Key::Char(fills[fi](i)))).collect();
            keys.push(K::E(Key::Enter));
            v.push((keys.clone(), all_sizes.clone()));
            // and a key after the notification was shown
            keys.push(K::E(Key::Char('x')));
            v.push((keys, vec![(76, 28)]));
        }
    }
    for f in ["load longline.asm", "load longline-utf8.asm"] {
        v.push((typed(f), all_sizes.clone()));
    }
    v
}

/// Child mode for C06: every `*.asm` file of the directory is loaded the way the interactive front-end
/// loads programs - as the start-up program and through the `load` command of a running session - and the
/// interface is drawn. One line per file on stdout: `LISTING <file> ok|refused|panic <where>: <message>`.
pub fn listing_stage(dir: &str) {
    let mut files: Vec<std::path::PathBuf> = std::fs::read_dir(dir).map(|d| d.filter_map(|e| e.ok()).map(|e| e.path()).filter(|p| p.extension().map(|x| x == "asm").unwrap_or(false)).collect()).unwrap_or_default();
    files.sort();
    let lines = mc::par_map(&files, |f| {
        let path = f.display().to_string();
        let name = f.file_name().map(|n| n.to_string_lossy().to_string()).unwrap_or_default();
        let r = mc::catch(|| -> Result<bool, (String, String)> {
            let mut loaded = false;
            if let Ok(mut s) = Session::new_with(Some(&path), crate::args::InitialMachineConfiguration::default()) {
                loaded = true;
                s.render(76, 28);
                s.render(140, 50);
                for _ in 0..3 {
                    s.press(K::E(Key::Enter))?;
                }
                s.render(76, 28);
            }
            let mut s = Session::new();
            for k in typed(&format!("load {}", path)) {
                s.press(k)?;
            }
            s.render(76, 28);
            s.render(200, 60);
            Ok(loaded)
        });
        match r {
            Ok(Ok(true)) => format!("LISTING {} ok", name),
            Ok(Ok(false)) => format!("LISTING {} refused", name),
            Ok(Err((k, w))) => format!("LISTING {} differs {}: {}", name, k, w.replace('\n', " | ")),
            Err(p) => format!("LISTING {} panic {}: {}", name, p.site(), p.msg.replace('\n', " | ")),
        }
    });
    for l in lines {
        println!("{}", l);
    }
}

pub fn run() {
    let mut ctx = Ctx::from_args("model_checking");
    // private working directory with a fixed set of files (completion and `load` see only these)
    let dir = std::env::temp_dir().join(format!("verif-c17-{}", std::process::id()));
    let _ = std::fs::create_dir_all(&dir);
    std::fs::write(dir.join("ok.asm"), "#! mrasm\n LD R0, 7\n ST (0xFF), R0\nL:\n INC R0\n JR L\n").unwrap();
    std::fs::write(dir.join("bad.asm"), "#! mrasm\n FROB\n").unwrap();
    std::fs::write(dir.join("long.asm"), format!("#! mrasm\n{}", " NOP ; filler line with a comment that is rather long indeed\n".repeat(60))).unwrap();
    // 236 bytes of one-byte instructions with 40 labels in between: a listing far longer than any pane
    // (more than 40 labels would be refused by the parser)
    std::fs::write(dir.join("big.asm"), format!("#! mrasm\n{}E:\n JR E\n", (0..39).map(|i| format!("L{}:\n INC R0\n NOP ; {}\n INC R1\n INC R2\n NOP\n DEC R0\n", i, i)).collect::<String>())).unwrap();
    // and one the parser refuses for its 80 labels
    std::fs::write(dir.join("labels.asm"), format!("#! mrasm\n{}E:\n JR E\n", (0..79).map(|i| format!("L{}:\n INC R0\n", i)).collect::<String>())).unwrap();
    // file names wider than any label of the interface, ASCII and multi-byte
    std::fs::write(dir.join("a-program-with-a-rather-long-file-name-0123456789-0123456789.asm"), "#! mrasm\n LD R0, 1\nL:\n JR L\n").unwrap();
    std::fs::write(dir.join("prögrämm-mït-ümläütén-ünd-ñ-ïm-nämën-ÿÿÿÿ.asm"), "#! mrasm\n LD R0, 2\nL:\n JR L\n").unwrap();
    // comments, labels and operands with multi-byte characters at every byte offset of a line
    std::fs::write(
        dir.join("umlaut.asm"),
        format!("#! mrasm\n{}L:\n JR L\n", (0..70usize).map(|n| format!(" NOP ; {}{}\n", "a".repeat(n % 4), ["ä", "語", "😀"][n % 3].repeat(n))).collect::<String>()),
    )
    .unwrap();
    // files the parser rejects at a very long line (the error message quotes the line)
    std::fs::write(dir.join("longline.asm"), format!("#! mrasm\n NOP\n FROB {}\n NOP\n", "z".repeat(5000))).unwrap();
    std::fs::write(dir.join("longline-utf8.asm"), format!("#! mrasm\n LD R0, {}\n", "語ä".repeat(3000))).unwrap();
    std::fs::write(dir.join("with space.asm"), "#! mrasm\n LD R0, 3\nL:\n JR L\n").unwrap();
    let _ = std::fs::create_dir_all(dir.join("sub"));
    std::fs::write(dir.join("sub").join("inner.asm"), "#! mrasm\n LD R0, 4\nL:\n JR L\n").unwrap();
    std::env::set_current_dir(&dir).expect("chdir to the private directory");
    let cleanup = |d: &std::path::Path| {
        let _ = std::env::set_current_dir("/");
        let _ = std::fs::remove_dir_all(d);
    };
    if let Some(f) = ctx.replay_file.clone() {
        let text = std::fs::read_to_string(&f).expect("replay file");
        let kv = mc::kv(text.lines().next().unwrap_or(""));
        // the key list may contain typed blanks: everything behind "seq=" up to a trailing " # comment"
        let first = text.lines().next().unwrap_or("");
        let seq = first.split_once("seq=").map(|x| x.1).unwrap_or("");
        let seq = seq.split(" # ").next().unwrap_or("");
        let keys = parse_keys(seq);
        let (w, h) = kv["size"].split_once('x').map(|(a, b)| (a.parse().unwrap(), b.parse().unwrap())).unwrap_or((76, 28));
        let r = mc::catch(|| {
            let mut s = replay(&keys)?;
            s.render(w, h);
            Ok::<(), (String, String)>(())
        });
        println!("{} keys at {}x{}: {:?}", keys.len(), w, h, r.as_ref().map_err(|p| format!("panic at {}: {}", p.site(), p.msg)));
        match r {
            Ok(Ok(())) => {}
            Ok(Err((k, wht))) => ctx.violation(k, wht, text.clone()),
            Err(p) => ctx.violation(panic_key(&p), format!("panic at {}: {}", p.site(), p.msg), text.clone()),
        }
        cleanup(&dir);
        ctx.finish();
    }
    let quick = ctx.quick();
    let mut bad = Bad::new();
    // ---- editor BFS ----
    let depth = if quick { 4 } else { 5 };
    let (states, transitions, digests, all_states) = editor_bfs(depth, &mut bad);
    // ---- rendering of every distinct editor state at many sizes ----
    let step = if quick { (all_states.len() / 400).max(1) } else { (all_states.len() / 6000).max(1) };
    let chosen: Vec<&Vec<K>> = all_states.iter().step_by(step).collect();
    let rend = mc::par_map(&chosen, |seq| {
        let mut out = vec![];
        let mut n = 0u64;
        let mut sizes: Vec<(u16, u16)> = vec![];
        for w in (76..=250).step_by(if quick { 6 } else { 1 }) {
            sizes.push((w, 28));
        }
        for h in (28..=100).step_by(if quick { 4 } else { 1 }) {
            sizes.push((76, h));
        }
        let r = mc::catch(|| replay(seq).ok());
        if let Ok(Some(mut s)) = r {
            for (w, h) in sizes {
                n += 1;
                if let Err(p) = mc::catch(|| s.render(w, h)) {
                    out.push((panic_key(&p), keys_line(seq, w, h), format!("rendering at {}x{}: panic at {}: {}", w, h, p.site(), p.msg)));
                    break;
                }
            }
        }
        (n, out)
    });
    let mut renders = 0u64;
    for (n, o) in rend {
        renders += n;
        for (k, l, w) in o {
            note(&mut bad, k, l, w);
        }
    }
    // ---- start-up arguments: every initial-configuration field alone and mixed x no program / each
    // program file; the session's machine must be the one the library calls give; a few keys and
    // renderings follow; an unreadable or unparsable program must be refused without a panic ----
    let mut startups = 0u64;
    {
        use crate::args::InitialMachineConfiguration as Init;
        let d = Init::default();
        let inits: Vec<(&str, Init)> = vec![
            ("default", d.clone()),
            ("--di1", Init { di1: 0xA7, ..d.clone() }),
            ("--temp", Init { temp: 1.75, ..d.clone() }),
            ("--j1", Init { j1: true, ..d.clone() }),
            ("--j2", Init { j2: true, ..d.clone() }),
            ("--ai1", Init { ai1: 3.25, ..d.clone() }),
            ("--ai2", Init { ai2: 0.5, ..d.clone() }),
            ("--uio1", Init { uio1: true, ..d.clone() }),
            ("--uio2", Init { uio2: true, ..d.clone() }),
            ("--uio3", Init { uio3: true, ..d.clone() }),
            ("--fc", Init { fc: 0x1C, ..d.clone() }),
            ("--fd", Init { fd: 0x2D, ..d.clone() }),
            ("--fe", Init { fe: 0x3E, ..d.clone() }),
            ("--ff", Init { ff: 0x4F, ..d.clone() }),
            ("mixed", Init { di1: 9, temp: 7.0, j1: true, ai1: f32::NAN, ai2: 2.0, uio2: true, fc: 1, fd: 2, fe: 3, ff: 4, ..d.clone() }),
        ];
        let follow: Vec<Vec<K>> = vec![vec![], vec![K::E(Key::Enter), K::E(Key::Enter)], typed("load ok.asm"), typed("FC = 5"), vec![K::Ctrl('r'), K::E(Key::Enter)], typed("show memory")];
        for (iname, init) in &inits {
            for prog in [None, Some("ok.asm"), Some("long.asm"), Some("big.asm"), Some("labels.asm"), Some("umlaut.asm"), Some("a-program-with-a-rather-long-file-name-0123456789-0123456789.asm"), Some("prögrämm-mït-ümläütén-ünd-ñ-ïm-nämën-ÿÿÿÿ.asm")] {
                for f in &follow {
                    startups += 1;
                    let line = format!("startup program={:?} init={} then={}", prog, iname, keys_line(f, 76, 28));
                    mc::watch::progress(|| line.clone());
                    let r = mc::catch(|| -> Result<(), (String, String)> {
                        // a program the parser rejects (labels.asm has more than 40 labels) must be refused
                        if let Some(p) = prog {
                            if compile_file(p).is_err() {
                                return match Session::new_with(prog, init.clone()) {
                                    Err(_) => Ok(()),
                                    Ok(_) => Err(("startup/accepted-an-invalid-program".to_string(), format!("Tui::new accepted {}", p))),
                                };
                            }
                        }
                        let mut s = Session::new_with(prog, init.clone()).map_err(|e| ("startup/refused-a-valid-invocation".to_string(), format!("Tui::new refused: {}", e)))?;
                        {
                            let ms = s.tui.machine();
                            if ms.machine != s.twin {
                                return Err(("startup/machine".into(), format!("the machine of a session started with program {:?} and {} differs from new + load + setters: reads of 0xF0-0xFF {:02x?} vs {:02x?}", prog, iname, (0xF0..=0xFFu8).map(|a| ms.machine.bus().read(a)).collect::<Vec<_>>(), (0xF0..=0xFFu8).map(|a| s.twin.bus().read(a)).collect::<Vec<_>>())));
                            }
                        }
                        for (w, h) in [(76u16, 28u16), (120, 40), (250, 100), (1, 1), (80, 24)] {
                            s.render(w, h);
                        }
                        for k in f {
                            s.press(*k)?;
                        }
                        s.render(100, 30);
                        Ok(())
                    });
                    match r {
                        Ok(Ok(())) => {}
                        Ok(Err((k, w))) => note(&mut bad, k, line, w),
                        Err(p) => note(&mut bad, panic_key(&p), line, format!("panic at {}: {}", p.site(), p.msg)),
                    }
                }
            }
        }
        for prog in ["bad.asm", "does-not-exist.asm"] {
            startups += 1;
            let line = format!("startup program={:?} init=default then=", prog);
            match mc::catch(|| Session::new_with(Some(prog), d.clone()).is_ok()) {
                Ok(false) => {}
                Ok(true) => note(&mut bad, "startup/accepted-an-invalid-program".into(), line, format!("Tui::new accepted {}", prog)),
                Err(p) => note(&mut bad, panic_key(&p), line, format!("panic at {}: {}", p.site(), p.msg)),
            }
        }
    }
    mc::watch::idle();
    // ---- all sizes 1x1 .. 250x100 for representative session states ----
    let reps: Vec<Vec<K>> = vec![
        vec![],
        typed("show memory"),
        typed("load ok.asm"),
        typed("load long.asm"),
        typed("bogus command"),
        { let mut k = typed("load big.asm"); k.extend(typed("next 700")); k },
        typed("load umlaut.asm"),
        typed("load a-program-with-a-rather-long-file-name-0123456789-0123456789.asm"),
        typed("load prögrämm-mït-ümläütén-ünd-ñ-ïm-nämën-ÿÿÿÿ.asm"),
        { let mut k = typed("load big.asm"); k.extend(typed("next 1900")); k.extend(typed("show memory")); k },
        { let mut k = typed("load ok.asm"); k.extend(typed("next 40")); k.extend("set TEMP = 3.3".chars().map(|c| K::E(Key::Char(c)))); k },
        // a long listing with the current line in its middle / at its end, and an input line that opens each
        // of the command helps (the panes around the listing change their height with it)
        { let mut k = typed("load big.asm"); k.extend(typed("next 700")); k.extend("set ".chars().map(|c| K::E(Key::Char(c)))); k },
        { let mut k = typed("load big.asm"); k.extend(typed("next 3")); k.extend("SET I1 = 2".chars().map(|c| K::E(Key::Char(c)))); k },
        { let mut k = typed("load long.asm"); k.extend(typed("next 150")); k.extend("unset ".chars().map(|c| K::E(Key::Char(c)))); k },
        { let mut k = typed("load umlaut.asm"); k.extend(typed("next 90")); k.extend("show ".chars().map(|c| K::E(Key::Char(c)))); k },
        { let mut k = typed("load big.asm"); k.extend(typed("next 1900")); k.extend("next ".chars().map(|c| K::E(Key::Char(c)))); k },
        { let mut k = typed("load long.asm"); k.push(K::E(Key::Enter)); k.extend("load ".chars().map(|c| K::E(Key::Char(c)))); k },
    ];
    let rep_sizes: Vec<(u16, u16)> = {
        let mut v = vec![];
        for w in 1..=250u16 {
            for h in 1..=100u16 {
                if quick && !(w <= 80 || w % 10 == 0) && !(h <= 30 || h % 10 == 0) {
                    continue;
                }
                v.push((w, h));
            }
        }
        v
    };
    let rr = mc::par_ranges(reps.len() * 16, reps.len() * 16, |rg| {
        let mut out = vec![];
        let mut n = 0u64;
        for j in rg {
            let (ri, part) = (j / 16, j % 16);
            let r = mc::catch(|| replay(&reps[ri]).ok());
            if let Ok(Some(mut s)) = r {
                for (i, (w, h)) in rep_sizes.iter().enumerate() {
                    if i % 16 != part {
                        continue;
                    }
                    n += 1;
                    if let Err(p) = mc::catch(|| s.render(*w, *h)) {
                        if out.len() < 5 {
                            out.push((panic_key(&p), keys_line(&reps[ri], *w, *h), format!("rendering at {}x{}: panic at {}: {}", w, h, p.site(), p.msg)));
                        }
                    }
                }
            } else if let Err(p) = r {
                out.push((panic_key(&p), keys_line(&reps[ri], 76, 28), format!("panic at {}: {}", p.site(), p.msg)));
            }
        }
        (n, out)
    });
    for (n, o) in rr {
        renders += n;
        for (k, l, w) in o {
            note(&mut bad, k, l, w);
        }
    }
    // ---- long inputs ----
    let longs = long_input_cases();
    let lr = mc::par_map(&longs, |(keys, sizes)| {
        let mut out = vec![];
        let mut n = 0u64;
        match mc::catch(|| replay(keys)) {
            Ok(Ok(mut s)) => {
                for (w, h) in sizes {
                    n += 1;
                    if let Err(p) = mc::catch(|| s.render(*w, *h)) {
                        out.push((panic_key(&p), keys_line(keys, *w, *h), format!("rendering a {}-character input at {}x{}: panic at {}: {}", keys.iter().filter(|k| matches!(k, K::E(Key::Char(_)))).count(), w, h, p.site(), p.msg)));
                        break;
                    }
                }
            }
            Ok(Err((k, w))) => out.push((k, keys_line(keys, 76, 28), w)),
            Err(p) => out.push((panic_key(&p), keys_line(keys, 76, 28), format!("panic at {}: {}", p.site(), p.msg))),
        }
        (n, out)
    });
    for (n, o) in lr {
        renders += n;
        for (k, l, w) in o {
            note(&mut bad, k, l, w);
        }
    }
    // ---- commands ----
    let mut lines = command_lines(!quick);
    lines.extend(short_lines(if quick { 2 } else { 3 }));
    let prefixes: Vec<Vec<K>> = vec![vec![], typed("load ok.asm"), { let mut k = typed("load ok.asm"); k.extend(typed("next 33")); k.push(K::Ctrl('w')); k }];
    let cr = mc::par_ranges(lines.len(), 256, |rg| {
        let mut out = vec![];
        let mut n = 0u64;
        let mut accepted = 0u64;
        for i in rg {
            for (pi, pre) in prefixes.iter().enumerate() {
                if pi > 0 && (quick || i % 4 != 0) && i % 16 != 0 {
                    continue;
                }
                let mut keys = pre.clone();
                keys.extend(typed(&lines[i]));
                n += 1;
                match mc::catch(|| replay(&keys).map(|mut s| { s.render(76, 28); s.note })) {
                    Ok(Ok(note)) => {
                        if !note && cmd::parse(&lines[i]).is_some() {
                            accepted += 1;
                        }
                    }
                    Ok(Err((k, w))) => out.push((k, keys_line(&keys, 76, 28), w)),
                    Err(p) => out.push((panic_key(&p), keys_line(&keys, 76, 28), format!("line {:?}: panic at {}: {}", lines[i], p.site(), p.msg))),
                }
            }
        }
        (n, accepted, out)
    });
    let mut cmd_runs = 0u64;
    let mut cmd_accepted = 0u64;
    for (n, a, o) in cr {
        cmd_runs += n;
        cmd_accepted += a;
        for (k, l, w) in o {
            note(&mut bad, k, l, w);
        }
    }
    // ---- command sequences: two commands in a row, recall from the history, edit a recalled line ----
    {
        let cmds = ["FC = 5", "set FD = 0x10", "FE = 0b11", "set IRG = 200", "set TEMP = 1.5", "set I1 = 2.0", "set J1", "unset J1", "set UIO2", "unset UIO2", "show memory", "show register", "next 3", "next", "load ok.asm", "bogus", "FF = 256"];
        let mut seqs: Vec<Vec<K>> = vec![];
        for a in cmds {
            for b in cmds {
                let mut k = typed(a);
                k.extend(typed(b));
                seqs.push(k);
            }
            // recall and resubmit; recall, edit, resubmit; recall, leave, type anew
            let mut k = typed(a);
            k.extend([K::E(Key::Up), K::E(Key::Enter), K::E(Key::Up), K::E(Key::Up), K::E(Key::Enter)]);
            seqs.push(k);
            let mut k = typed(a);
            k.extend([K::E(Key::Up), K::E(Key::Backspace), K::E(Key::Char('7')), K::E(Key::Enter), K::E(Key::Up), K::E(Key::Down), K::E(Key::Enter)]);
            seqs.push(k);
            let mut k = typed("bogus");
            k.push(K::E(Key::Char('x'))); // dismisses the notification only
            k.extend(typed(a));
            k.extend([K::E(Key::Up), K::E(Key::Up), K::E(Key::Down), K::E(Key::Home), K::E(Key::Delete), K::E(Key::End), K::E(Key::Enter)]);
            seqs.push(k);
        }
        // all triples over a small set of commands and control keys (state carried across three steps)
        let items: Vec<Vec<K>> = vec![typed("FC = 5"), typed("load ok.asm"), typed("set J1"), typed("unset J1"), typed("set TEMP = 1.5"), typed("next 3"), vec![K::Ctrl('r')], vec![K::Ctrl('w')], typed("FC = 6")];
        for a in &items {
            for b in &items {
                for c in &items {
                    let mut k = a.clone();
                    k.extend(b.iter().cloned());
                    k.extend(c.iter().cloned());
                    k.extend(typed("next 2"));
                    seqs.push(k);
                }
            }
        }
        let res = mc::par_map(&seqs, |keys| match mc::catch(|| replay(keys).map(|mut s| s.render(76, 28))) {
            Ok(Ok(_)) => None,
            Ok(Err((k, w))) => Some((k, keys_line(keys, 76, 28), w)),
            Err(p) => Some((panic_key(&p), keys_line(keys, 76, 28), format!("panic at {}: {}", p.site(), p.msg))),
        });
        cmd_runs += seqs.len() as u64;
        for x in res.into_iter().flatten() {
            note(&mut bad, x.0, x.1, x.2);
        }
    }
    // ---- long sessions: hundreds of submitted lines in one session (valid, invalid, recalled with Up),
    // every key compared as always; the 300th line must act like the 3rd ----
    let mut long_keys = 0u64;
    {
        let sessions: Vec<(usize, u16)> = vec![(if quick { 320 } else { 1200 }, 76), (270, 120)];
        let rr = mc::par_map(&sessions, |(nlines, width)| {
            let mut out = vec![];
            let mut n = 0u64;
            let r = mc::catch(|| -> Result<u64, (String, String, String)> {
                let mut s = Session::new();
                let mut pressed = vec![];
                let mut cnt = 0u64;
                for i in 0..*nlines {
                    let line = match i % 7 {
                        0 => format!("FC = {}", i % 256),
                        1 => format!("set FD = 0x{:x}", i % 256),
                        2 => "bogus line".to_string(),
                        3 => format!("next {}", 1 + i % 3),
                        4 => "set J1".to_string(),
                        5 => "unset J1".to_string(),
                        _ => format!("FF = 0b{:b}", i % 256),
                    };
                    let mut keys = typed(&line);
                    if i % 11 == 10 {
                        // recall the previous line and submit it again; walk further up and come back
                        keys = vec![K::E(Key::Up), K::E(Key::Enter), K::E(Key::Enter), K::E(Key::Up), K::E(Key::Up), K::E(Key::Up), K::E(Key::Down), K::E(Key::Down), K::E(Key::Down), K::E(Key::Down)];
                    }
                    for k in keys {
                        pressed.push(k);
                        cnt += 1;
                        if let Err((key, what)) = s.press(k) {
                            let tail: Vec<K> = pressed[pressed.len().saturating_sub(40)..].to_vec();
                            return Err((format!("long-session/{}", key), format!("{} # the last 40 of {} keys of a long session", keys_line(&tail, *width, 28), pressed.len()), format!("after {} submitted lines: {}", i, what)));
                        }
                    }
                    if i % 50 == 49 {
                        s.render(*width, 28);
                    }
                }
                Ok(cnt)
            });
            match r {
                Ok(Ok(c)) => n += c,
                Ok(Err(x)) => out.push(x),
                Err(p) => out.push((panic_key(&p), format!("seq= size={}x28 # long session of {} lines", width, nlines), format!("panic at {}: {}", p.site(), p.msg))),
            }
            (n, out)
        });
        for (n, o) in rr {
            long_keys += n;
            for (k, l, w) in o {
                note(&mut bad, k, l, w);
            }
        }
    }
    // ---- one key many times: every key of the alphabet (and every control key) 300 times in a row, from
    // three editor states ----
    {
        let mut keys = editor_alphabet();
        keys.extend([K::Ctrl('a'), K::Ctrl('w'), K::Ctrl('e'), K::Ctrl('r'), K::Ctrl('l'), K::E(Key::Enter)]);
        // every editor key with every combination of SHIFT / ALT / CONTROL held, and the keys without a use
        for base in editor_alphabet().into_iter().chain([K::E(Key::Enter)]) {
            if let K::E(key) = base {
                for bits in 1..8u8 {
                    keys.push(K::M(bits, key));
                }
            }
        }
        for i in 0..7u8 {
            keys.push(K::Other(i));
        }
        let prefixes: Vec<Vec<K>> = vec![vec![], typed("set FC = 0x1"), { let mut k = typed("FC = 1"); k.extend(typed("bogus")); k.extend(typed("load o")); k }];
        let mut cases = vec![];
        for k in &keys {
            for p in &prefixes {
                cases.push((*k, p.clone()));
            }
        }
        let rr = mc::par_map(&cases, |(k, pre)| {
            let mut out = vec![];
            let mut n = 0u64;
            let mut seq = pre.clone();
            let r = mc::catch(|| -> Result<u64, (String, String)> {
                let mut s = replay(pre)?;
                let mut c = 0;
                for i in 0..300 {
                    seq.push(*k);
                    c += 1;
                    s.press(*k).map_err(|(key, w)| (key, format!("at repetition {} of {}: {}", i + 1, key_name(k), w)))?;
                    if s.quit {
                        break;
                    }
                    if i % 60 == 59 {
                        s.render(76, 28);
                    }
                }
                Ok(c)
            });
            match r {
                Ok(Ok(c)) => n += c,
                Ok(Err((key, w))) => out.push((format!("repeated-key/{}", key), keys_line(&seq, 76, 28), w)),
                Err(p) => out.push((panic_key(&p), keys_line(&seq, 76, 28), format!("panic at {}: {}", p.site(), p.msg))),
            }
            (n, out)
        });
        for (n, o) in rr {
            long_keys += n;
            for (k, l, w) in o {
                note(&mut bad, k, l, w);
            }
        }
    }
    // ---- the real main loop (`Tui::run`: emulation between frames, sleeping, drawing on a terminal) cannot be
    // entered in-process; a handful of scripted sessions run the real binary under a pseudo terminal
    // (tools/pty_session.py). Every session ends with CTRL+C and must end with exit status 0. ----
    let mut runloop_sessions = 0u64;
    {
        let script = mc::verif_root().join("tools").join("pty_session.py");
        let have = std::process::Command::new("python3").arg("-c").arg("import pty").output().map(|o| o.status.success()).unwrap_or(false);
        match (std::env::var("VERIF_BIN"), have && script.exists()) {
            (Ok(bin), true) if std::path::Path::new(&bin).exists() => {
                std::fs::write(dir.join("loop.asm"), "#! mrasm\nL:\n INC R0\n ST (0xFF), R0\n JR L\n").unwrap();
                std::fs::write(dir.join("halts.asm"), "#! mrasm\n LD R0, 7\nL:\n ST (0xFF), R0\n STOP\n INC R0\n JR L\n").unwrap();
                std::fs::write(dir.join("overflow.asm"), "#! mrasm\n LDSP 0xE0\nF:\n PUSH R0\n CALL F\n").unwrap();
                let sessions: Vec<(&str, Option<&str>, &str, Vec<&str>)> = vec![
                    ("autorun on a looping program", Some("loop.asm"), "120x40", vec!["^a", "WAIT:1.2", "^c"]),
                    ("autorun toggled, single steps", Some("loop.asm"), "120x40", vec!["^a", "WAIT:0.5", "^a", "ENTER", "ENTER", "^c"]),
                    ("autorun in assembly step mode", Some("loop.asm"), "100x30", vec!["^w", "^a", "WAIT:0.8", "^c"]),
                    ("autorun into a STOP, continue", Some("halts.asm"), "120x40", vec!["^a", "WAIT:0.5", "^l", "WAIT:0.4", "^c"]),
                    ("autorun into an error stop, reset", Some("overflow.asm"), "120x40", vec!["^a", "WAIT:0.5", "^r", "WAIT:0.3", "^c"]),
                    ("commands without a program", None, "120x40", vec!["FC = 5", "ENTER", "ENTER", "bogus", "ENTER", "x", "^a", "WAIT:0.3", "^c"]),
                    ("terminal below the minimum size", Some("loop.asm"), "70x20", vec!["^a", "WAIT:0.4", "^c"]),
                    ("interrupt key while running", Some("loop.asm"), "120x40", vec!["^a", "WAIT:0.3", "^e", "WAIT:0.3", "^e", "^c"]),
                    ("the quit command ends the session", Some("loop.asm"), "120x40", vec!["^a", "WAIT:0.3", "quit", "ENTER"]),
                    ("the quit command after a rejected line", None, "90x30", vec!["bogus", "ENTER", "x", "quit", "ENTER"]),
                    ("mouse reports arrive", Some("loop.asm"), "120x40", vec!["MOUSE", "ENTER", "^a", "MOUSE", "WAIT:0.3", "^c"]),
                    ("quit pasted together with more keys", None, "100x30", vec!["BURST:quit\\rx"]),
                    ("commands pasted, quit in the middle", Some("loop.asm"), "100x30", vec!["BURST:FC = 1\\rquit\\rshow memory\\r"]),
                    ("CTRL+C pasted with keys behind it", None, "100x30", vec!["BURST:ab\\x03cd"]),
                    ("terminal resized while auto-run is on", Some("loop.asm"), "120x40", vec!["^a", "WAIT:0.3", "RESIZE:76x28", "RESIZE:40x10", "RESIZE:1x1", "RESIZE:250x100", "set ", "RESIZE:100x30", "RESIZE:100x32", "WAIT:0.3", "^c"]),
                    ("long listing, set help, resizes", Some("big.asm"), "100x34", vec!["ENTER", "ENTER", "ENTER", "set I1 = 2", "RESIZE:100x30", "RESIZE:100x32", "RESIZE:76x28", "ENTER", "x", "^c"]),
                ];
                let rr = mc::par_map(&sessions, |(name, prog, size, keys)| {
                    let mut cmd = std::process::Command::new("python3");
                    cmd.arg(&script).arg(&bin).arg(&dir).arg(size).arg("10");
                    if let Some(p) = prog {
                        cmd.arg("--program").arg(p);
                    }
                    cmd.arg("--");
                    for k in keys {
                        cmd.arg(k);
                    }
                    let line = format!("runloop size={} program={:?} keys={}", size, prog, keys.join("~"));
                    match mc::output_with_timeout(&mut cmd, 60) {
                        Ok(Some(o)) => {
                            let out = String::from_utf8_lossy(&o.stdout).to_string();
                            let verdict = out.lines().find(|l| l.starts_with("EXIT ")).unwrap_or("EXIT ?").to_string();
                            if verdict == "EXIT 0" {
                                None
                            } else {
                                Some(("runloop/session-does-not-end-cleanly".to_string(), line, format!("[{}] the interactive binary under a pseudo terminal: {} (expected EXIT 0 after CTRL+C)", name, verdict)))
                            }
                        }
                        Ok(None) => Some(("runloop/session-does-not-end-cleanly".to_string(), line, format!("[{}] the pseudo-terminal session did not finish within 60 s", name))),
                        Err(_) => None,
                    }
                });
                runloop_sessions = sessions.len() as u64;
                for x in rr.into_iter().flatten() {
                    note(&mut bad, x.0, x.1, x.2);
                }
            }
            _ => ctx.assume("the run-loop sessions under a pseudo terminal were skipped (python3 with the pty module or the binary is not available)"),
        }
    }
    ctx.set("run_loop_sessions_under_a_pseudo_terminal", runloop_sessions);
    mc::watch::idle();
    // ---- control keys after each of 20 machine states ----
    let mut ctl_runs = 0u64;
    {
        let progs = ["load ok.asm", "load long.asm"];
        let mut cases: Vec<Vec<K>> = vec![];
        for p in progs {
            for steps in [0usize, 1, 3, 9, 17] {
                for mode in [false, true] {
                    let mut k = typed(p);
                    if mode {
                        k.push(K::Ctrl('w'));
                    }
                    for _ in 0..steps {
                        k.push(K::E(Key::Enter));
                    }
                    cases.push(k);
                }
            }
        }
        let ctl = [K::Ctrl('a'), K::Ctrl('w'), K::Ctrl('e'), K::Ctrl('r'), K::Ctrl('l'), K::Ctrl('x'), K::E(Key::Enter)];
        let res = mc::par_map(&cases, |base| {
            let mut out = vec![];
            let mut n = 0;
            for a in ctl {
                for b in ctl {
                    let mut keys = base.clone();
                    keys.push(a);
                    keys.push(b);
                    keys.push(K::E(Key::Enter));
                    n += 1;
                    match mc::catch(|| replay(&keys).map(|mut s| s.render(76, 28))) {
                        Ok(Ok(_)) => {}
                        Ok(Err((k, w))) => out.push((k, keys_line(&keys, 76, 28), w)),
                        Err(p) => out.push((panic_key(&p), keys_line(&keys, 76, 28), format!("panic at {}: {}", p.site(), p.msg))),
                    }
                }
            }
            (n, out)
        });
        for (n, o) in res {
            ctl_runs += n;
            for (k, l, w) in o {
                note(&mut bad, k, l, w);
            }
        }
    }
    for (k, (n, cases)) in &bad {
        for (l, w) in cases.iter().take(3) {
            ctx.violation(k.clone(), format!("{} ({} cases in class)", w, n), l.clone());
        }
    }
    ctx.set("states", states);
    ctx.set("transitions", transitions + cmd_runs + ctl_runs);
    ctx.set("traces_validated_against_impl", transitions + cmd_runs + ctl_runs);
    ctx.set("evaluations", transitions + cmd_runs + ctl_runs + renders + startups);
    ctx.set("startup_sessions", startups);
    ctx.set("long_session_keys", long_keys);
    ctx.set("distinct_nontrivial", states + cmd_accepted);
    ctx.set("rule", "editor: BFS by replay over a 22-key alphabet (characters incl. multi-byte, Enter, Tab, BackTab, arrows, Home/End, Backspace/Delete), complete key-sequence tree to the depth (no deduplication; distinct visible states are only counted); every key goes through the real Tui::handle_event and is compared with REF-EDIT / REF-CMD and a twin Machine driven by library calls; every transition renders the real Interface into a Buffer; rendering: every chosen editor state x all widths 76..250 and heights 28..100, 17 session states x all sizes 1x1..250x100 (drawn after maintain()), long inputs around the widget width and submitted lines of up to 60 000 characters; start-up sessions (program x initial configuration); sessions of 320 / 1 200 submitted lines; every key with every modifier combination 300 times; sixteen scripted sessions of the real binary under a pseudo terminal (incl. terminal resizes, the quit command, mouse reports, pasted bursts); commands: the sentence family and all short strings typed and submitted; control keys: all ordered pairs after 20 machine states");
    ctx.set("exhaustive", true);
    ctx.set("bounds", format!("editor depth {} ({} distinct visible states, {} key sequences, {} distinct screen digests); {} render calls; {} submitted command lines ({} executed as documented commands); {} control-key runs", depth, states, transitions, digests, renders, cmd_runs, cmd_accepted, ctl_runs));
    ctx.set("render_calls", renders);
    ctx.set("command_lines", cmd_runs);
    ctx.set("distinct_outcomes", digests);
    ctx.sample(keys_line(&typed("FC = 0x1F"), 76, 28));
    ctx.sample(keys_line(&all_states[all_states.len() / 2], 76, 28));
    ctx.sample(format!("command lines e.g. {:?}", &lines[lines.len() / 3..lines.len() / 3 + 4]));
    ctx.set("determinism_selftest", {
        let a = replay(&typed("set TEMP = 2.5")).map(|s| s.state_key()).ok();
        let b = replay(&typed("set TEMP = 2.5")).map(|s| s.state_key()).ok();
        a == b && a.is_some()
    });
    ctx.assume("REF-EDIT / REF-CMD (refmodel) state the documented editing keys and command language; completion results are adopted, only its invariants are checked; crossterm terminal I/O, raw mode and the real-time pacing of Tui::run are outside the check; the filename completer sees a private directory with three files");
    let _ = State::Running;
    let _ = Json::Null;
    cleanup(&dir);
    ctx.finish();
}
