#!/bin/bash
# Run once after a fresh restore, offline: builds the harness from files on disk only.
set -e
cd "$(dirname "$0")"
export CARGO_NET_OFFLINE=true
cd harness
cp /repo/Cargo.lock Cargo.lock
cargo build --release --offline -p libchecks 2>&1 | tail -3
if [ -d tuichecks/src ] && [ -f tuichecks/Cargo.toml ]; then
  cargo build --release --offline -p tuichecks 2>&1 | tail -3
fi
# the real command-line binary used by the process-level parts of C06 / C12 (dev profile, own target dir)
CARGO_TARGET_DIR="$PWD/target/repo-bin" cargo build --offline --manifest-path /repo/Cargo.toml -p emulator-2a 2>&1 | tail -2
echo "setup done"
