#!/usr/bin/env python3
"""Runs the real `2a-emulator interactive` main loop under a pseudo terminal.

usage: pty_session.py <binary> <cwd> <cols>x<rows> <wait_s> [--program FILE] -- <key> [<key> ...]
Keys: ^a ^w ^e ^r ^l ^c, ENTER, TAB, UP, DOWN, LEFT, RIGHT, WAIT:<seconds>, RESIZE:<cols>x<rows>, MOUSE, BURST:<text with \\r escapes>, or literal text.
Prints `EXIT <status>` (status of the child as a shell would report it, or `timeout`)."""
import os, pty, sys, time, select, struct, fcntl, termios, signal

def main():
    a = sys.argv[1:]
    binary, cwd, size, wait_s = a[0], a[1], a[2], float(a[3])
    rest = a[4:]
    prog = None
    if rest and rest[0] == '--program':
        prog = rest[1]; rest = rest[2:]
    assert rest and rest[0] == '--'
    keys = rest[1:]
    cols, rows = [int(x) for x in size.split('x')]
    pid, fd = pty.fork()
    if pid == 0:
        os.chdir(cwd)
        os.environ['TERM'] = 'xterm-256color'
        args = [binary, 'interactive'] + ([prog] if prog else [])
        os.execv(binary, args)
    fcntl.ioctl(fd, termios.TIOCSWINSZ, struct.pack('HHHH', rows, cols, 0, 0))
    def drain(t):
        end = time.time() + t
        while time.time() < end:
            r, _, _ = select.select([fd], [], [], 0.05)
            if r:
                try:
                    if not os.read(fd, 65536):
                        return
                except OSError:
                    return
    # wait until the interface has drawn (raw mode is on by then: ^c arrives as a key, not as SIGINT)
    got = b''
    t_end = time.time() + 20
    while time.time() < t_end and len(got) < 200:
        r, _, _ = select.select([fd], [], [], 0.1)
        if r:
            try:
                chunk = os.read(fd, 65536)
            except OSError:
                break
            if not chunk:
                break
            got += chunk
        else:
            p, st = os.waitpid(pid, os.WNOHANG)
            if p:
                print('EXIT %s-before-any-key' % (os.WEXITSTATUS(st) if os.WIFEXITED(st) else 'signal-%d' % os.WTERMSIG(st)))
                return
    drain(0.4)
    names = {'ENTER': b'\r', 'TAB': b'\t', 'UP': b'\x1b[A', 'DOWN': b'\x1b[B', 'RIGHT': b'\x1b[C', 'LEFT': b'\x1b[D'}
    for k in keys:
        if k.startswith('WAIT:'):
            drain(float(k[5:])); continue
        if k.startswith('RESIZE:'):
            c, r = [int(x) for x in k[7:].split('x')]
            fcntl.ioctl(fd, termios.TIOCSWINSZ, struct.pack('HHHH', r, c, 0, 0))
            try:
                os.kill(pid, signal.SIGWINCH)
            except OSError:
                pass
            drain(0.3); continue
        if k == 'MOUSE':
            # SGR mouse reports (press, drag, release, wheel): a terminal sends them whether the program asked or not
            os.write(fd, b'\x1b[<0;10;10M\x1b[<32;11;10M\x1b[<0;11;10m\x1b[<64;10;10M')
            drain(0.2); continue
        if k.startswith('BURST:'):
            # several keys in ONE write (a paste, or a fast typist between two frames); \r = Enter, \x03 = CTRL+C
            os.write(fd, k[6:].encode().decode('unicode_escape').encode('latin-1'))
            drain(0.2); continue
        if len(k) == 2 and k[0] == '^':
            data = bytes([ord(k[1].lower()) - 96])
        else:
            data = names.get(k, k.encode())
        try:
            os.write(fd, data)
        except OSError:
            break
        drain(0.15)
    deadline = time.time() + wait_s
    status = None
    while time.time() < deadline:
        drain(0.1)
        p, st = os.waitpid(pid, os.WNOHANG)
        if p:
            status = st; break
    if status is None:
        os.kill(pid, signal.SIGKILL)
        os.waitpid(pid, 0)
        print('EXIT timeout'); return
    if os.WIFEXITED(status):
        print('EXIT %d' % os.WEXITSTATUS(status))
    else:
        print('EXIT signal-%d' % os.WTERMSIG(status))

main()
