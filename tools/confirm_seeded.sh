#!/bin/bash
# usage: tools/confirm_seeded.sh <mutdir> <worktree>
# Confirms in a scratch worktree: demo passes on pristine, suite passes with the patch, demo fails with the patch.
# Demo kinds: demo.rs (integration test for emulator-2a-lib), demo.rs starting with "// append-to: <file>"
# (unit-test module appended to a source file of the binary crate), demo.sh (shell script run in the worktree).
# Prints a JSON fragment with the outcome. The worktree is left clean.
set -u
M="$1"; WT="$2"
cd "$WT" || exit 2
clean() { git checkout -q -- . ; git clean -fdq -e target; }
clean
run_demo() {
  if [ -f "$M/demo.sh" ]; then
    bash "$M/demo.sh" >/tmp/confirm-demo.log 2>&1; return $?
  fi
  local first; first=$(head -1 "$M/demo.rs")
  if [[ "$first" == "// append-to:"* ]]; then
    local target; target=$(echo "$first" | sed 's|// append-to: *||')
    cat "$M/demo.rs" >> "$target"
    cargo test --offline -p emulator-2a demo_mut >/tmp/confirm-demo.log 2>&1; local rc=$?
    # a filter that matches no test would "pass": require that something ran
    grep -q 'running [1-9]' /tmp/confirm-demo.log || rc=99
    git checkout -q -- "$target"
    return $rc
  fi
  mkdir -p emulator-2a-lib/tests
  cp "$M/demo.rs" emulator-2a-lib/tests/demo_mut.rs
  cargo test --offline -p emulator-2a-lib --test demo_mut >/tmp/confirm-demo.log 2>&1; local rc=$?
  rm -rf emulator-2a-lib/tests
  return $rc
}
run_demo; P0=$?
clean
if ! git apply "$M/patch.diff"; then echo '{"applies": false}'; exit 1; fi
cargo test --workspace --offline >/tmp/confirm-suite.log 2>&1; S=$?
FAILS=$(grep -c 'test result: FAILED' /tmp/confirm-suite.log)
PASSED=$(grep 'test result: ok' /tmp/confirm-suite.log | sed 's/.*ok\. \([0-9]*\) passed.*/\1/' | paste -sd+ | bc)
run_demo; P1=$?
clean
echo "{\"applies\": true, \"demo_passes_on_pristine\": $([ $P0 = 0 ] && echo true || echo false), \"suite_exit_with_patch\": $S, \"suite_failed_groups\": $FAILS, \"suite_tests_passed_with_patch\": ${PASSED:-0}, \"demo_fails_with_patch\": $([ $P1 != 0 ] && [ $P1 != 99 ] && echo true || echo false)}"
