#!/bin/bash
# usage: tools/confirm_seeded.sh <mutdir> <worktree> [<demo-target-relative-path>]
# Confirms in a scratch worktree: demo passes on pristine, suite passes with the patch, demo fails with the patch.
# Prints a JSON fragment with the outcome. The worktree is left clean.
set -u
M="$1"; WT="$2"; DEMO_REL="${3:-emulator-2a-lib/tests/demo_mut.rs}"
cd "$WT" || exit 2
git checkout -q -- . ; git clean -fdq -e target
PKG=$(echo "$DEMO_REL" | cut -d/ -f1)
mkdir -p "$(dirname "$DEMO_REL")"
cp "$M/demo.rs" "$DEMO_REL"
cargo test --offline -p "$PKG" --test demo_mut >/tmp/confirm-pristine.log 2>&1; P0=$?
rm -f "$DEMO_REL"; rmdir "$(dirname "$DEMO_REL")" 2>/dev/null
if ! git apply "$M/patch.diff"; then echo '{"applies": false}'; exit 1; fi
cargo test --workspace --offline >/tmp/confirm-suite.log 2>&1; S=$?
FAILS=$(grep -c 'test result: FAILED' /tmp/confirm-suite.log)
PASSED=$(grep 'test result: ok' /tmp/confirm-suite.log | sed 's/.*ok\. \([0-9]*\) passed.*/\1/' | paste -sd+ | bc)
mkdir -p "$(dirname "$DEMO_REL")"
cp "$M/demo.rs" "$DEMO_REL"
cargo test --offline -p "$PKG" --test demo_mut >/tmp/confirm-mutated.log 2>&1; P1=$?
git checkout -q -- . ; git clean -fdq -e target
echo "{\"applies\": true, \"demo_passes_on_pristine\": $([ $P0 = 0 ] && echo true || echo false), \"suite_exit_with_patch\": $S, \"suite_failed_groups\": $FAILS, \"suite_tests_passed_with_patch\": ${PASSED:-0}, \"demo_fails_with_patch\": $([ $P1 != 0 ] && echo true || echo false)}"
