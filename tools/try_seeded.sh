#!/bin/bash
# usage: tools/try_seeded.sh <patch.diff> <ID> [<ID>...]
# Applies a seeded change to /repo, runs the quick checks of the given properties, reverts.
# Prints one line per check: CAUGHT / MISSED / MACHINERY.
set -u
PATCH="$1"; shift
cd /verif
if ! git -C /repo diff --quiet; then echo "refusing: /repo has uncommitted changes"; exit 2; fi
if ! git -C /repo apply "$PATCH"; then echo "patch does not apply"; exit 2; fi
trap 'git -C /repo checkout -- . ; git -C /repo clean -fdq emulator-2a-lib/tests 2>/dev/null' EXIT
for ID in "$@"; do
  OUT=$(./check "$ID" --tier "${TIER:-quick}" 2>&1); RC=$?
  case $RC in
    0) echo "MISSED    $ID"; ;;
    1) echo "CAUGHT    $ID  $(echo "$OUT" | grep -m1 -A1 '^VIOLATION' | tr '\n' ' ' | cut -c1-260)"; ;;
    *) echo "MACHINERY $ID  $(echo "$OUT" | grep -m2 'MACHINERY\|error' | tr '\n' ' ' | cut -c1-260)"; ;;
  esac
done
