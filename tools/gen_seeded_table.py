#!/usr/bin/env python3
"""Rewrites the table of DESIGN.md section 9.5 from /verif/seeded/*/meta.json."""
import json, glob, os, re
rows = []
for d in sorted(glob.glob('/verif/seeded/*/meta.json')):
    m = json.load(open(d))
    name = os.path.basename(os.path.dirname(d))
    res = m['checks_run_against_it']
    caught = [f"{k} (`{v['violation_key']}`)" for k, v in res.items() if v['outcome'] == 'caught']
    missed = [k for k, v in res.items() if v['outcome'] != 'caught']
    cell = '; '.join(caught) + (f"; not by {', '.join(missed)}" if missed else '')
    rows.append(f"| {name} | {m['needs_to_manifest']} | {cell} |")
s = open('/verif/DESIGN.md').read()
head = '| seeded change | needs, in order to manifest | caught by (violation class) |\n|---|---|---|\n'
i = s.index(head) + len(head)
j = i
lines = s[i:].split('\n')
k = 0
while k < len(lines) and lines[k].startswith('|'):
    k += 1
rest = '\n'.join(lines[k:])
s = s[:i] + '\n'.join(rows) + '\n' + rest
open('/verif/DESIGN.md', 'w').write(s)
print(len(rows), 'rows')
