#!/bin/bash
# Re-runs every stored seeded change against the quick check of its own property (regression test of
# the machinery). /repo must be clean; each patch is applied and reverted. usage: tools/recheck_seeded.sh [glob]
cd /verif
fail=0
for d in seeded/${1:-[C]*}/; do
  n=$(basename "$d"); id=${n%%-*}
  # a change that its own property's check leaves to a neighbour (recorded in meta.json) is re-run against that one
  id=$(python3 -c "import json,sys; c=json.load(open(sys.argv[1]))['checks_run_against_it']; own=sys.argv[2]; print(own if c.get(own,{}).get('outcome')=='caught' else next((k for k,v in c.items() if v.get('outcome')=='caught'), own))" "/verif/$d/meta.json" "$id")
  r=$(timeout 1500 tools/try_seeded.sh "/verif/$d/patch.diff" "$id" | head -1 | cut -c1-150)
  echo "$n: $r"
  case "$r" in CAUGHT*) ;; *) fail=1 ;; esac
done
exit $fail
