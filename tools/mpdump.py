#!/usr/bin/env python3
"""Readable dump of the control store (development aid, not part of any check)."""
import re,sys
ALU=["ADDH","A","NOR","ZERO","ADD","ADDS","ADC","ADCS","LSR","RR","RRC","ASR","B","SETC","BH","INVC"]
rows=[]
for line in open('/repo/emulator-2a-lib/src/machine/microprogram_ram_content.rs'):
    m=re.search(r'0b([01]{28})\), // ([01]{9})(.*)',line)
    if m: rows.append((int(m.group(2),2),int(m.group(1),2),m.group(3).strip()))
def bit(w,n): return (w>>n)&1
for addr,w,c in rows:
    if w==0: continue
    mac=(w>>24)&0xF; na=(w>>19)&0x1F; buswr=bit(w,18); busen=bit(w,17)
    aa=(w>>13)&0xF; ab=(w>>9)&0xF; ws=bit(w,8); we=bit(w,7); ia=bit(w,6); ib=bit(w,5); alus=(w>>1)&0xF; chflg=bit(w,0)
    def reg(x,which):
        if x&8: return "R[op%s]"%("01,00" if which=='a' else "11,10")
        return "R%d"%(x&7)
    A = "BUS" if ia else reg(aa,'a')
    if ib:
        const=(0xF8 if ab&8 else 0)|(ab&7)
        B="#0x%02X"%const
    else: B=reg(ab,'b')
    dst = (reg(ab,'b') if ws else reg(aa,'a')) if we else "-"
    mac3,mac2,mac1,mac0=bit(mac,3),bit(mac,2),bit(mac,1),bit(mac,0)
    na0=na&1
    if mac2: nxt="NA=%02x|IRlo2 "%(na&0x1C)
    else:
        sel=(mac1,mac0,na0)
        cond={(0,0,0):"0",(0,0,1):"1",(0,1,0):"AL3(cond)",(0,1,1):"CF",(1,0,0):"Cout",(1,0,1):"Zout",(1,1,0):"Nout",(1,1,1):"INT"}[sel]
        nxt="NA=%02x|%s"%(na&0x1E,cond)
    irctl = "IRRESET" if (mac1 and mac2) else ("IRLOAD" if (mac0 and mac2) else "")
    print("%03x mac=%d%d%d%d %-16s %-8s A=%-10s B=%-10s %-5s dst=%-10s %s%s%s%s | %s"%(addr,mac3,mac2,mac1,mac0,nxt,irctl,A,B,ALU[alus],dst,"F " if chflg else "  ","RD(%s) "%reg(aa,'a') if busen else "","WR(%s) "%reg(aa,'a') if buswr else "","FETCH" if mac3 else "",c))
