#!/usr/bin/env python3
"""Regenerates /verif/MANIFEST.json from the table below (development aid)."""
import json, subprocess, sys, os
ROOT = os.path.dirname(os.path.dirname(os.path.abspath(__file__)))

CHECKS = {
 # id: (category, technique, text, note, design_ref)
}
def add(i, cat, tech, text, note, ref): CHECKS[i] = (cat, tech, text, note, ref)

add("C01", "model_checking",
    "exhaustive product enumeration + depth-bounded explicit-state search of instruction sequences on the real Machine, lock-step against REF-ISA",
    "Every point of the stated per-instruction products (all 8 reg-reg ALU ops x 16 register pairs x all 65 536 value pairs x carry-in in the thorough tier; every other opcode x 256 values x 16 flags x FR upper bits x 4 SPs; 16 x 128 two-byte forms x pointer-set^2 x placements) is executed on the real machine from boundary to boundary and compared with an instruction-level reference; all instruction sequences up to depth 2/3 over a 48-instruction alphabet from 3 start states are compared after every instruction (a first-byte STOP is followed by the continue key and the comparison goes on); code executing out of the I/O page (every byte pair in the input registers at PC=0xFC, every byte on the board port at PC=0xF0); the repository's programs, assembled by REF-ASM, in lock-step for up to 1 500 / 20 000 instructions; every instruction of the sequence alphabet followed by an accepted key interrupt (result and cost of the interval instruction + interrupt entry); the sequence and program runs are repeated with the public read-only API called after every clock edge (results and edge counts must not move). The reference I/O page is REF-BUS (not a real Bus), so address-decoding faults show through instructions.",
    "Trusted: REF-ISA (statement clauses normative, frozen corners in refmodel/FROZEN.md); I/O side delegated to a real Bus (C10/C14); states with SP>=0xF0 left to C05; sequences longer than the bound and RAM contents outside the pattern family are outside the verdict.",
    "DESIGN.md 3/C01")
add("C08", "model_checking",
    "complete enumeration of the 2 097 152-point input space of the real AluOutput::from_input against REF-ALU",
    "All 16 x 256 x 256 x 2 points are executed and compared field by field; exhaustive:true in both tiers; the select code of every function, the decoder used by the machine for every programmed control word and AluInput::default() are checked as well.",
    "Trusted: REF-ALU (doc list alu.rs:8-46 + C08 statement; carry of A/NOR/ZERO frozen at 0).",
    "DESIGN.md 3/C08")
add("C15", "exploration",
    "exhaustive product enumeration of instruction forms x address classes x data values; edges counted on the real machine between boundaries vs. REF-ISA's word + wait table",
    "Shares C01's sweeps (incl. all 65 536 MUL/DIV pairs): for every executed instruction the number of clock edges between two boundaries must equal the written-out micro-step count of its form plus one wait per RAM-touching step.",
    "Trusted: the per-form word counts in REF-ISA (frozen from the control store listing).",
    "DESIGN.md 3/C15")

add("C09", "model_checking",
    "explicit-state search to a fix-point over the abstract control space (micro address x instruction register), every transition computed by the real trigger_clock_edge() under the full input product; graph analysis (SCCs, longest paths, reachability) on the result; conformance replay of 10 176 unforced executions (incl. a reset at every edge) against the extracted graph",
    "All control states reachable from reset are expanded under every combination of flags, ALU condition outputs, pending interrupt and (at IR-loading words) all 256 bytes; on the resulting graph: no all-zero word reachable, address always inside the IR[7:4] block, the only fetch-free cycles are the MUL and DIV loops, bounded fetch-free path length, exactly the documented undefined first/second bytes never complete; MUL/DIV loops terminate for all 65 536 pairs concretely; every transition taken by unforced executions of every first byte / every second byte (with and without a pending interrupt) and after a cpu or master reset at every edge is an edge of that graph, and a reset always yields the power-on control state.",
    "Trusted: the defined-opcode sets come from REF-ISA. The assumption that the hook forces exactly the sequencer-visible latches is itself checked by the conformance replay (memory-wait edges must leave the control state unchanged; supervision error stops are C05's).",
    "DESIGN.md 3/C09")

add("C05", "model_checking",
    "per-edge invariant monitoring of exhaustively generated runs on the real Machine + explicit-state BFS (depth 3) over stimuli from every class of halted state reached",
    "Every clock edge of every generated run (LDSP to all 256 values x walks x 5 stack sizes, recursion to the limit, jumps to all 256 targets x all 256 program-size limits, all first/second opcode bytes, all two-instruction sequences of a 23-instruction alphabet) is checked by an independent edge-level predictor of the Running/Stopped/ErrorStopped flip; halted states are expanded under 10 further stimuli to depth 3 and must be absorbing; continue from a STOP must resume with the next instruction (checked against REF-ISA); limits installed by Machine::load, all ordered pairs of loads incl. NOSET and empty programs, expectation taken from the program texts; the continue key (once, twice), the interrupt key and an input change before every edge of 600 halting programs must not move the halt.",
    "Trusted: REF-SUP bands (frozen) and predicates; the monitor reads pending-write/wait/last-bus-read latches via the verif-hooks accessors; at the conflict edge (rule broken and STOP loaded together) either halt kind is accepted.",
    "DESIGN.md 3/C05")

add("C11", "model_checking",
    "explicit-state exploration of every mid-run machine state of a program corpus; twin comparison (assembly step vs. specification twin on raw clock edges) by whole-Machine equality; bounded termination analysis with exact state-cycle detection, confirmed in killable child processes",
    "At every state reached by clock-stepping 0..70 edges into every ordered pair of a 35-instruction alphabet (interrupt just triggered or not, either step mode, halting and supervised programs included, also with the continue key pressed as soon as a program stops) one or three assembly steps on a clone must equal clock-stepping to the next boundary(ies); step-mode switches must not alter the machine; for all 256 first bytes and 4 x 256 second bytes the step must return, a non-returning step is accepted only for REF-ISA's undefined opcodes (known finding).",
    "Trusted: spec_step (the statement's wording on raw edges); REF-ISA's defined-opcode sets; a twin that repeats an identical full machine state or exceeds 4096 edges counts as never returning.",
    "DESIGN.md 3/C11")

add("C04", "model_checking",
    "deviation-bounded exhaustive schedule enumeration (0, 1, 2 key presses at every clock edge / every ordered pair in a window) of generated programs on the real Machine, each schedule observed edge by edge against the uninterrupted twin",
    "For every program of the family (prologue + every body sequence up to length 2/3 over 25 instruction kinds x 3 interrupt routines x 4 register initialisations; + enable-bit-clear, other-MICR-bits and EI-less variants, + second lives after a cpu/master reset of a machine that had the interrupt enabled and taken, + a STOP in the main program followed by the continue key (presses while Stopped included), + a re-entrant routine (nested entries); main programs that are not transparent by construction are left out and counted) the key is pressed before every single clock edge 0..T, and at every ordered pair of edges in a 120-edge window; each run must enter the routine exactly as often as the statement requires, push FR (IE set) and a return address that is a boundary state of the uninterrupted run, have IE clear inside, replay the uninterrupted boundary sequence of the main program, and end with identical registers/flags/SP/outputs/RAM (outside exactly the stack slots written by entry sequences and routines).",
    "Trusted: the classification of a press as 'while enabled' (MICR bit and IE at the press, IE still set at the sampling edge); presses in other windows may enter 0 or 1 times; sampling edges are read from the public Signals + wait latch accessor.",
    "DESIGN.md 3/C04")

add("C02", "translation_validation",
    "translation validation: every program of exhaustively enumerated families is compiled by the real Translator (through both the AST and the text path) and its per-line bytes, image and limits are compared with an independent two-pass reference assembler",
    "Instruction shapes (every form x operand shape x register), each placed after every prefix sequence (depth 1-3) of a 17-element directive/instruction alphabet with labels before and after every element referenced forward, backward and in mixed case through every referencing instruction form; relative jumps from every address 0..0xEC to every target 0..255; all limit directives; the repository's programs; long texts (up to 20 000 lines, 100 000-character lines); ordered triples of label names that sort differently under different collations.",
    "Trusted: REF-PARSE and REF-ASM (encoding table written out from the documented instruction table; label = address of the next byte, case-folded, last definition wins). Programs with backward .ORG or an image > 240 bytes are C06's.",
    "DESIGN.md 3/C02")
add("C03", "exploration",
    "bounded exhaustive enumeration of input strings (grammar-derived sentence products, all short strings over a special-character alphabet, all single-token mutations of a corpus) with a differential oracle: real parser vs. an independent PEG recogniser + AST builder",
    "For every enumerated input: no panic; accept/reject and error class agree with REF-PARSE; long texts (100..20 000 lines of every line kind, counts around 254-257, single lines of 100 000 characters); the binary's own file reader (`2a-emulator verify FILE`, 2 900 files incl. BOM / CR / CRLF / non-UTF-8) exits 0 exactly for texts of the language; on acceptance the complete AST (lines, instructions, operands, values, labels with case, trimmed comments, header comment) is equal.",
    "Trusted: REF-PARSE (hand transcription of the documented mrasm language into an own PEG interpreter). Strings outside the enumerated families are outside the verdict.",
    "DESIGN.md 3/C03")
add("C06", "exploration",
    "bounded exhaustive enumeration of accepted programs (texts of up to 20 000 lines, every .ORG target after every position, images of every size 0..300 by 7 constructions x limit directives, every line kind followed by .ORG at the RAM limit, C02's jump/layout/limit families, the C03 families, token mutations) through parse -> compile -> load under a panic monitor; process-level confirmation with the real binary, and 2 300 accepted programs loaded through the interactive front-end (start-up program, `load`, listing pane) by the TUI harness as a child process",
    "Every accepted text must survive Translator::compile, Machine::load / new_with_program, 12 steps and the byte-code listing; a cross-section is run through the real `2a-emulator verify` / `run` binary (verify exit 0 implies run does not die by panic). Three panics are known findings and are matched only when REF-ASM's layout class explains them.",
    "Trusted: REF-ASM's layout classification used to key findings (backward .ORG / image > 255 / image 241-255 bytes).",
    "DESIGN.md 3/C06")

add("C16", "exploration",
    "bounded exhaustive enumeration of accepted programs (C03 families + all 256 byte values in 5 spellings, word boundaries, comment and label families, multi-line combinations); each is rendered with Display and re-parsed by the real parser, whole-AST equality",
    "For every accepted text: parse(format(asm)) == asm, and every line rendered on its own (the form of the program pane / byte-code listing) re-parses to exactly that line.",
    "Only parser-built ASTs are judged; equality is the derived PartialEq on Asm/Line.",
    "DESIGN.md 3/C16")

add("C10", "model_checking",
    "exhaustive enumeration of single operations (256 addresses x 256 values from rich prior states on 3 base buses incl. pending-interrupt ones) and of all 65 536 ordered write-address pairs, plus explicit-state BFS (depth 3/4) over reads, writes (special values), resets and port changes through Bus::board_mut() on the real Bus, lock-step with a map-based reference; every ordered pair of (address, value) writes inside the I/O page; every address read and written by executed instructions (7 forms) from 6 prior states",
    "After every operation all 256 addresses are read and RAM, outputs, MICR key bit and the board are compared with REF-BUS; every read must leave the Bus value unchanged (PartialEq); writes to 0xF0-0xFF never change RAM, 0xEF/0xF0 boundary exact, input registers unaffected by writes, outputs only by 0xFE/0xFF.",
    "Trusted: REF-BUS; the board behind 0xF0-0xF3 is the real Board on the reference side (C14 checks the board); UART/timer registers have no read-back and are only checked not to leak into anything observable.",
    "DESIGN.md 3/C10")
add("C14", "model_checking",
    "explicit-state BFS (depth 3/4) over port writes and external setters on the real Bus/Board against REF-BOARD, states deduplicated on the derived Debug of the real board (not on the reference state); threshold sweeps of every analog input through every DAC level in steps down to 1 ulp; exhaustive enumeration of f32 bit patterns (2^22 quick, all 2^32 thorough) through the three analog setters; every byte value at each of the four ports from 5 prior board states followed by every external event; all ordered pairs of control-port writes; 4 000 boards of machines created with a MachineConfig; all 256 DAC bytes for the fan law",
    "After every operation the status registers 0xF0-0xF3 and the getters named in the statement (stored voltages, DAC outputs, UIO directions, interrupt control) equal REF-BOARD: clamping incl. NaN/inf, DAC = byte/100, comparator bits, jumpers, direction-gated UIO pins, edge interrupts raised exactly on the configured transition of the selected source, flip-flop clearing, fan period = 255 - DAC1 byte.",
    "Trusted: REF-BOARD written from the statement; frozen corners listed in refmodel/FROZEN.md (UOR drives status bits regardless of direction; FAN bit; flip-flop independent of IE). Fan rpm is not compared.",
    "DESIGN.md 3/C14")

add("C07", "model_checking",
    "explicit-state BFS over histories (18 events, depth 8 quick / 11 thorough) of the real Machine, deduplicated on the derived Debug of the whole Machine (so implementation-internal state keeps histories apart); at every distinct node each reset and each follow-up load is executed on a clone and compared with power-on values, an untouched twin and a fresh machine (lock-step)",
    "cpu_reset: registers/IR/sequencer/pending latches/bus latch/ALU latch/outputs/MICR/state = power-on, RAM/inputs/board/limits/step mode untouched, timer survives and UCR is cleared (Bus-value differentials), whole-Machine equality against a machine rebuilt from public setters for clean histories; master_reset: additionally inputs, timer and the board's outputs cleared, RAM and board inputs untouched; load: RAM = image + zeros, limits applied, load == master reset + image + limits as a whole Machine value; 7 follow-up programs (incl. one that enables every interrupt source and a NOSET program) run 300 edges in lock-step with a new machine; the cpu-side whole-machine comparison is made after every history; after the master reset of every history no external stimulus may raise the board's interrupt flags; the resets and the other thin wrappers of Machine equal the calls they wrap on the RawMachine (raw_mut()); 16 histories of 1 500 events; the board after a master reset answers a probe sequence like a new board with the same inputs; load_raw = master reset + bytes.",
    "Histories bounded by the depth; MISR and the UART send register are outside the statement and not compared.",
    "DESIGN.md 3/C07")

add("C13", "exploration",
    "exhaustive enumeration of program heads (all 2^16 two-byte heads x 5 stack sizes x 3 limits; thorough: all 2^24 three-byte heads), of every bus address x value through instructions and direct Bus calls, of every stimulus sequence to depth 3/4 from 8 program states, and of every stimulus before every clock edge (phase) of 86 interrupt-using and hostile programs incl. ordered pairs of key presses; a pass with a Trace-level logger installed (log arguments evaluated); oracle: panic monitor (catch_unwind, overflow checks and debug assertions on), machine still readable and steppable",
    "Every call into Machine/RawMachine/Bus/Board made by these runs must return; after each event all getters are read and one more clock edge is issued.",
    "Stacksize::NotSet excluded (not one of the five sizes, never installed by load); RAM images beyond head+tail pattern and longer stimulus sequences are outside the verdict.",
    "DESIGN.md 3/C13")

add("C12", "model_checking",
    "exhaustive enumeration of run schedules (program x configuration x every budget 0..40/60 x every sub-multiset of interrupt cycles x every sub-multiset of reset cycles from the boundary sets) on the real RunnerConfig::run against a reference loop over the public Machine API; all expectation subsets x match/mismatch for verify(); constructor == setters for every configuration field and pair; a RunnerConfig run twice and with fields assigned anew; stdout and exit status of the real binary per invocation (every byte literal in every spelling, 24 argument orders, -vvvv, budgets up to usize::MAX, the program through a pipe); error values and rendered messages of verify keep found/expected in their roles",
    "emulated_cycles and the whole final Machine (PartialEq) equal REF-RUN's for every schedule; RunExpectations::verify is Ok exactly when every stated field matches and reports a stated mismatching field; the binary prints those cycle/state/FE/FF values, accepts every byte value in every spelling of the three radices as an input flag and as an expectation, is independent of the order of positionals, options and --opt=value spellings (all 24 orders), rejects 256/0x100, and exits non-zero exactly on read, parse or verification failure.",
    "Trusted: REF-RUN (the statement's loop); parse/compile are shared with the subject (C02/C03); CLI argument errors only need to exit non-zero without running.",
    "DESIGN.md 3/C12")

add("C17", "model_checking",
    "exploration of the full tree of key sequences (22-key alphabet, depth 4/5, no merging of states) on the real Tui event dispatch; command pairs, triples and history recall; sessions started with a program and every initial setting; file names wider than the interface; sessions of 320 / 1 200 submitted lines; every key with every modifier combination and the unused key codes, 300 times each; sixteen scripted sessions of the real binary under a pseudo terminal (incl. terminal resizes, the quit command, mouse reports, pasted bursts) (the real main loop; smoke test, not exhaustive); exhaustive enumeration of terminal sizes and of a command-line family; every key compared with REF-EDIT / REF-CMD and a twin Machine driven by library calls; panic monitor on every transition and render",
    "No key sequence / size makes handle_event or Interface::render panic; cursor and history index stay in range; editing keys behave as REF-EDIT; a submitted line is rejected with a notification or has exactly the effect of the documented command on the machine (PartialEq against the twin), values above 255 and trailing garbage rejected; control keys act as the library calls of the same name.",
    "Trusted: REF-EDIT / REF-CMD; completion results are adopted (only invariants checked); float spellings other than plain decimals are unspecified; crossterm I/O, raw mode and the real-time pacing of Tui::run are outside the check.",
    "DESIGN.md 3/C17")

NOT_YET = {}

def main():
    props = [json.loads(l)["id"] for l in open(os.path.join(ROOT, "properties.jsonl"))]
    hooks_commits = ["008aa25", "3e32ff3"]
    man = {
      "version": 1,
      "setup_cmd": "./setup.sh",
      "hooks": {
        "guard": "cargo feature verif-hooks (declared, non-default, in emulator-2a-lib/Cargo.toml and emulator-2a/Cargo.toml; used as #[cfg(feature = \"verif-hooks\")])",
        "enable": "harness crates depend on /repo/emulator-2a-lib by path with features=[\"verif-hooks\"]; tuichecks mounts /repo/emulator-2a/src modules via #[path] and enables its own feature of the same name",
        "baseline_off_cmd": "cd /repo && cargo nextest run --workspace --no-fail-fast --offline || cargo test --workspace --no-fail-fast --offline",
        "source_commits": hooks_commits,
        "add_only": True
      },
      "engines": [
        {"name": "mc", "path": "harness/mc", "serves_properties": props, "kind_free_text": "std-only Rust engine: deterministic parallel product enumeration, level-synchronous explicit-state BFS with canonical keys, panic capture, replay/evidence/known-findings plumbing"},
        {"name": "refmodel", "path": "harness/refmodel", "serves_properties": props, "kind_free_text": "independent reference models (REF-ALU, REF-ISA, REF-ASM, REF-PARSE, REF-BUS, REF-BOARD, REF-RUN, REF-EDIT, REF-CMD)"},
        {"name": "libchecks", "path": "harness/libchecks", "serves_properties": [p for p in props if p != "C17"], "kind_free_text": "drivers that run the real emulator-2a-lib (path dependency on /repo) under the engine"},
        {"name": "tuichecks", "path": "harness/tuichecks", "serves_properties": ["C17"], "kind_free_text": "drivers that run the binary crate's own tui/args/runner modules (mounted with #[path]) headlessly"}
      ],
      "checks": [],
      "not_applicable": [],
      "notes": "Every check: ./check <ID> --tier quick|thorough; exit 0 held / 1 VIOLATION / 2 machinery error. Known findings: known_findings.txt. Design: DESIGN.md."
    }
    for p in props:
        if p in CHECKS:
            cat, tech, text, note, ref = CHECKS[p]
            man["checks"].append({
              "property_id": p,
              "quick_cmd": f"./check {p} --tier quick",
              "thorough_cmd": f"./check {p} --tier thorough",
              "evidence_file": f"evidence/{p}.json",
              "replay_cmd_template": f"./check {p} --replay {{path}}",
              "engine": "tuichecks" if p == "C17" else "libchecks",
              "level_claimed": {"category": cat, "text": text, "design_ref": ref},
              "level_note": note,
              "technique": tech,
            })
        else:
            man["not_applicable"].append({"property_id": p, "reason": NOT_YET.get(p, "check not built yet in this session (planned, see DESIGN.md section 3); not claimed until its driver exists")})
    json.dump(man, open(os.path.join(ROOT, "MANIFEST.json"), "w"), indent=1)
    print("wrote MANIFEST.json with", len(man["checks"]), "checks")

main()
