#!/usr/bin/env python3
"""usage: store_seeded.py <PROP> <variant> <needs-text> <checks,comma> [demo-rel-path]
Copies /tmp/mut-<PROP>/<variant>/{patch.diff,demo.rs,notes.md} to /verif/seeded/<PROP>-<variant>/,
confirms it in /tmp/wt-<PROP>, runs the named quick checks against it in /repo and writes meta.json."""
import json, os, shutil, subprocess, sys
prop, var, needs, checks = sys.argv[1], sys.argv[2], sys.argv[3], sys.argv[4].split(',')
demo_rel = sys.argv[5] if len(sys.argv) > 5 else 'emulator-2a-lib/tests/demo_mut.rs'
src = f'/tmp/mut-{prop}/{var}'
dst = f"/verif/seeded/{prop}-{os.environ.get('AS', var)}"
os.makedirs(dst, exist_ok=True)
for f in ['patch.diff', 'demo.rs', 'demo.sh', 'notes.md']:
    if os.path.exists(f'{src}/{f}'):
        shutil.copy(f'{src}/{f}', f'{dst}/{f}')
wt = os.environ.get('WT', f'/tmp/wt-{prop}')
conf = json.loads(subprocess.run(['/verif/tools/confirm_seeded.sh', src, wt], capture_output=True, text=True).stdout.strip().splitlines()[-1])
out = subprocess.run(['/verif/tools/try_seeded.sh', f'{dst}/patch.diff'] + checks, capture_output=True, text=True).stdout
results = {}
for line in out.splitlines():
    parts = line.split()
    if len(parts) >= 2 and parts[0] in ('CAUGHT', 'MISSED', 'MACHINERY'):
        key = ''
        if 'key=' in line:
            key = line.split('key=')[1].split()[0]
        results[parts[1]] = {'outcome': parts[0].lower(), 'violation_key': key}
first = open(f'{src}/notes.md').read().strip().split('\n')
meta = {
  'breaks_property': prop,
  'variant': os.environ.get('AS', var),
  'origin': 'independent sub-agent given only the property text and a scratch worktree (nothing from /verif)',
  'needs_to_manifest': needs,
  'confirmed_in_scratch_worktree': conf,
  'confirmation_commands': [
     'tools/confirm_seeded.sh <dir> <scratch worktree>: demo on the pristine worktree (must pass); git apply patch.diff && cargo test --workspace --offline (suite must pass); demo again (must fail)',
     'demo kinds: demo.rs = integration test emulator-2a-lib/tests/demo_mut.rs; demo.rs with "// append-to: <file>" = unit-test module appended to that source file, run with cargo test -p emulator-2a demo_mut; demo.sh = script run in the worktree'],
  'checks_run_against_it': results,
  'how_checks_were_run': 'tools/try_seeded.sh patch.diff <ids>  (git -C /repo apply; ./check <id> --tier quick; git -C /repo checkout -- .)',
}
json.dump(meta, open(f'{dst}/meta.json', 'w'), indent=1)
print(prop, var, conf.get('demo_fails_with_patch'), {k: v['outcome'] for k, v in results.items()})
