#!/bin/sh
# Runs every check of the given tier (quick|thorough) against /repo's working tree and prints one line each.
tier=${1:-quick}
cd "$(dirname "$0")/.."
rc_all=0
for id in C01 C02 C03 C04 C05 C06 C07 C08 C09 C10 C11 C12 C13 C14 C15 C16 C17; do
  s=$(date +%s)
  out=$(./check $id --tier $tier 2>&1); rc=$?
  e=$(date +%s)
  echo "$id rc=$rc $((e-s))s $(echo "$out" | grep -c '^VIOLATION') violation line(s); $(echo "$out" | tail -1 | cut -c1-90)"
  [ $rc -ne 0 ] && rc_all=1
done
exit $rc_all
